//! C07 -- the blocking reader equals slice parsing for every fragmentation of the source.
//! Shape C: every execution drives the real DltMessageReader over a scripted `Read` whose every
//! answer (bytes delivered, ErrorKind::Interrupted) is a choice point owned by the explorer.
use crate::common::*;
use crate::explore::*;
use crate::inputs::strings_over;
use crate::refmodel::*;
use crate::universe::*;
use dlt_core::parse::{dlt_message, DltParseError, ParsedMessage};
use dlt_core::read::{read_message, DltMessageReader};
use serde_json::json;
use std::cell::RefCell;
use std::rc::Rc;

pub const CAP: usize = 65_551; // 16 + 65535: the smallest capacities the constructor's debug_assert allows

// observation codes
pub const O_ITEM_OK: u8 = 1;
pub const O_ITEM_DIFF: u8 = 2;
pub const O_OTHER_OK: u8 = 3;
pub const O_NONE: u8 = 5;
pub const O_ERR_INCOMPLETE: u8 = 6;
pub const O_ERR_HICKUP: u8 = 7;
pub const O_ERR_UNRECOVERABLE: u8 = 8;
pub const O_PANIC: u8 = 9;
pub const O_MISMATCH: u8 = 10;
pub const O_ERR_OTHER: u8 = 11;

pub fn err_code(e: &DltParseError) -> u8 {
    match e {
        DltParseError::IncompleteParse { .. } => O_ERR_INCOMPLETE,
        DltParseError::ParsingHickup(_) => O_ERR_HICKUP,
        DltParseError::Unrecoverable(_) => O_ERR_UNRECOVERABLE,
        // a variant this harness does not know: its own class (never equal to a known one)
        #[allow(unreachable_patterns)]
        _ => O_ERR_OTHER,
    }
}
pub fn code_name(c: u8) -> &'static str {
    match c {
        O_ITEM_OK => "message(as expected)",
        O_ITEM_DIFF => "message(DIFFERENT)",
        O_OTHER_OK => "filtered/invalid(as expected)",
        O_NONE => "end-of-stream",
        O_ERR_INCOMPLETE => "Err(IncompleteParse)",
        O_ERR_HICKUP => "Err(ParsingHickup)",
        O_ERR_UNRECOVERABLE => "Err(Unrecoverable)",
        O_PANIC => "PANIC",
        O_MISMATCH => "MISMATCH",
        _ => "?",
    }
}

#[derive(Debug, Clone, Copy, PartialEq)]
pub enum Terminal {
    /// fewer bytes than a fixed header remain: end of stream
    CleanEnd,
    /// a header is present but the stream ends before the declared length: end-of-stream or error, never a message
    TruncatedTail,
    /// declared length below the header size: any non-panicking outcome
    ShortLen,
}
pub struct Expected {
    /// result of parsing each complete piece: Ok(message) or the error class
    pub pieces: Vec<Result<ParsedMessage, u8>>,
    pub piece_ends: Vec<usize>,
    pub terminal: Terminal,
}

/// the harness's own cutter (the statement, transcribed)
pub fn oracle(stream: &[u8], with_storage: bool) -> Expected {
    let st = if with_storage { 16 } else { 0 };
    let mut o = 0usize;
    let mut pieces = vec![];
    let mut piece_ends = vec![];
    loop {
        if stream.len() - o < st + 4 {
            return Expected { pieces, piece_ends, terminal: Terminal::CleanEnd };
        }
        let len = ((stream[o + st + 2] as usize) << 8) | stream[o + st + 3] as usize;
        if len < 4 {
            return Expected { pieces, piece_ends, terminal: Terminal::ShortLen };
        }
        if stream.len() - o < st + len {
            return Expected { pieces, piece_ends, terminal: Terminal::TruncatedTail };
        }
        let piece = &stream[o..o + st + len];
        pieces.push(match dlt_message(piece, None, with_storage) {
            Ok((_, pm)) => Ok(pm),
            Err(e) => Err(err_code(&e)),
        });
        o += st + len;
        piece_ends.push(o);
    }
}

fn same_parsed(a: &ParsedMessage, b: &ParsedMessage) -> bool {
    match (a, b) {
        (ParsedMessage::Item(x), ParsedMessage::Item(y)) => same_message(x, y),
        _ => a == b,
    }
}

/// Drive the blocking reader over one scripted source; returns the observation codes.
pub fn drive_blocking(stream: &Rc<Vec<u8>>, with_storage: bool, exp: &Expected, ch: &Shared, fixed: Option<Vec<u32>>, full_menu_limit: usize, big_buffers: bool) -> Vec<u8> {
    let src = ScriptedRead { data: stream.clone(), off: 0, ch: ch.clone(), full_menu_limit, fixed, fixed_pos: 0 };
    let mut reader = if big_buffers { DltMessageReader::new(src, with_storage) } else { DltMessageReader::with_capacity(CAP, CAP, src, with_storage) };
    let mut obs = Vec::with_capacity(exp.pieces.len() + 1);
    for i in 0..=exp.pieces.len() {
        let r = catch(|| read_message(&mut reader, None));
        let code = match (&r, exp.pieces.get(i)) {
            (Err(_), _) => O_PANIC,
            (Ok(Ok(Some(pm))), Some(Ok(e))) => {
                if same_parsed(pm, e) {
                    if matches!(pm, ParsedMessage::Item(_)) {
                        O_ITEM_OK
                    } else {
                        O_OTHER_OK
                    }
                } else {
                    O_ITEM_DIFF
                }
            }
            (Ok(Ok(Some(_))), _) => O_ITEM_DIFF,
            (Ok(Ok(None)), _) => O_NONE,
            (Ok(Err(e)), _) => err_code(e),
        };
        obs.push(code);
        ch.borrow_mut().emitted = (i + 1) as u32;
        if code == O_NONE || code == O_PANIC {
            break;
        }
        // an error where a message was expected: the reader state is undefined from here on
        if let Some(Ok(_)) = exp.pieces.get(i) {
            if code != O_ITEM_OK && code != O_OTHER_OK {
                break;
            }
        }
    }
    obs
}

/// compare an observation with the oracle; returns a description of the disagreement
pub fn disagreement(obs: &[u8], exp: &Expected) -> Option<String> {
    for (i, e) in exp.pieces.iter().enumerate() {
        let o = match obs.get(i) {
            Some(o) => *o,
            None => return Some(format!("result {} is missing (expected {} pieces)", i, exp.pieces.len())),
        };
        let ok = match e {
            Ok(ParsedMessage::Item(_)) => o == O_ITEM_OK,
            Ok(_) => o == O_OTHER_OK,
            Err(code) => o == *code,
        };
        if !ok {
            let want = match e {
                Ok(ParsedMessage::Item(_)) => "the message of piece".to_string(),
                Ok(_) => "filtered/invalid".to_string(),
                Err(c) => code_name(*c).to_string(),
            };
            return Some(format!("result {} is {} but cutting the stream at the declared lengths gives {} {}", i, code_name(o), want, i));
        }
    }
    let t = obs.get(exp.pieces.len()).copied();
    match (exp.terminal, t) {
        (_, Some(O_PANIC)) => Some("the reader panicked".into()),
        (Terminal::CleanEnd, Some(O_NONE)) => None,
        (Terminal::CleanEnd, other) => Some(format!("after the last complete message the reader returned {} instead of end-of-stream", other.map(code_name).unwrap_or("nothing"))),
        (Terminal::TruncatedTail, Some(O_NONE)) | (Terminal::TruncatedTail, Some(O_ERR_INCOMPLETE)) | (Terminal::TruncatedTail, Some(O_ERR_HICKUP)) | (Terminal::TruncatedTail, Some(O_ERR_UNRECOVERABLE)) => None,
        (Terminal::TruncatedTail, other) => Some(format!("a truncated tail yielded {} (must be end-of-stream or an error, never a message)", other.map(code_name).unwrap_or("nothing"))),
        (Terminal::ShortLen, Some(_)) => None, // any non-panicking outcome
        (Terminal::ShortLen, None) => Some("no terminal result".into()),
    }
}

pub fn message_alphabet() -> Vec<RefMsg> {
    vec![
        msg_with(0x00, 1, None, RefPayload::NonVerbose(0x0102_0304, vec![]), None),                                                                   // 8 bytes
        msg_with(0x00, 1, Some(ext(MSTP_LOG, 4, "A", "C")), RefPayload::Verbose(vec![mk_arg(RefKind::Bool, None, 0, false, RefValue::Bool(1), None)]), None), // 19 bytes
        msg_with(0x04, 1, Some(ext(MSTP_LOG, 2, "APP", "CTX")), RefPayload::Verbose(vec![mk_arg(RefKind::Str, None, 1, false, RefValue::Str("hello".into()), None)]), None),
        msg_with(0x02, 1, Some(ext(MSTP_APP_TRACE, 1, "APP", "CTX")), RefPayload::Verbose(vec![mk_arg(RefKind::Raw, Some(("r", "")), 0, false, RefValue::Raw(vec![1, 2, 3, 4, 5, 6, 7]), None)]), None),
        msg_with(0x1C, 2, Some(ext(MSTP_CONTROL, 1, "APP", "CTX")), RefPayload::Control(0x11, vec![0, 1]), None),
        msg_with(0x10, 1, Some(ext(MSTP_NW_TRACE, 2, "N", "W")), RefPayload::NetworkTrace(vec![vec![9, 9], vec![]]), None),
        msg_with(0x00, 1, None, RefPayload::NonVerbose(7, vec![0xAB; 290]), None), // long then short pairs arise in sequences
    ]
}
/// a 4-byte message (LEN = 4): a complete piece whose parse fails (payload too short)
pub fn tiny_unparsable() -> Vec<u8> {
    vec![0x20, 0x00, 0x00, 0x04]
}

pub fn with_storage(mut b: Vec<u8>) -> Vec<u8> {
    let mut v = b"DLT\x01\x01\x02\x03\x04\x05\x06\x07\x00ECU\0".to_vec();
    v.append(&mut b);
    v
}

pub struct Stream {
    pub bytes: Rc<Vec<u8>>,
    pub storage: bool,
    pub what: String,
}
// Rc is not Send; streams are rebuilt per case from plain data
pub struct StreamSpec {
    pub bytes: Vec<u8>,
    pub storage: bool,
    pub what: String,
}

pub fn sequence_streams(max_len: usize, include_long: bool) -> Vec<StreamSpec> {
    let mut alpha: Vec<Vec<u8>> = message_alphabet().iter().map(|m| encode(m).0).collect();
    if !include_long {
        alpha.pop();
    }
    alpha.push(tiny_unparsable());
    let n = alpha.len();
    let mut out = vec![];
    for storage in [false, true] {
        for l in 1..=max_len {
            let total = n.pow(l as u32);
            for mut j in 0..total {
                let mut bytes = vec![];
                let mut names = vec![];
                for _ in 0..l {
                    let k = j % n;
                    j /= n;
                    names.push(k.to_string());
                    let piece = alpha[k].clone();
                    bytes.extend_from_slice(&if storage { with_storage(piece) } else { piece });
                }
                out.push(StreamSpec { bytes, storage, what: format!("messages [{}] of the alphabet{}", names.join(","), if storage { ", storage headers" } else { "" }) });
            }
        }
    }
    out
}

pub fn hostile_streams() -> Vec<StreamSpec> {
    let mut out = vec![];
    for storage in [false, true] {
        for htyp in [0x00u8, 0x01, 0x21, 0x3D, 0x3F, 0x04] {
            for len in [0usize, 1, 2, 3, 4, 5, 13, 14, 15, 0xFFFF] {
                for follow in [0usize, 3, 20] {
                    let mut b = vec![htyp, 0, (len >> 8) as u8, len as u8];
                    b.extend((0..follow).map(|i| (i * 17 + 1) as u8));
                    // in front: nothing, or one good message
                    for good_first in [false, true] {
                        let mut s = vec![];
                        if good_first {
                            let g = encode(&message_alphabet()[1]).0;
                            s.extend_from_slice(&if storage { with_storage(g) } else { g });
                        }
                        s.extend_from_slice(&if storage { with_storage(b.clone()) } else { b.clone() });
                        out.push(StreamSpec { bytes: s, storage, what: format!("hostile header HTYP {:#04x} LEN {} + {} bytes{}{}", htyp, len, follow, if good_first { " after a good message" } else { "" }, if storage { ", storage headers" } else { "" }) });
                    }
                }
            }
        }
    }
    out
}

#[derive(Default)]
pub struct Tally {
    pub executions: u64,
    pub boundary_in_header: u64,
    pub boundary_in_body: u64,
    pub boundary_on_message_end: u64,
    pub interrupts: u64,
    pub pendings: u64,
    pub short_reads: u64,
}

pub fn classify_boundaries(ch: &Chooser, exp: &Expected, storage: bool, loc: &mut Local) {
    let st = if storage { 16 } else { 0 };
    let mut in_header = false;
    let mut in_body = false;
    let mut on_end = false;
    for b in &ch.boundaries {
        let b = *b as usize;
        // locate b relative to the piece it falls into
        let mut start = 0usize;
        let mut found = false;
        for e in &exp.piece_ends {
            if b == *e {
                on_end = true;
                found = true;
                break;
            }
            if b < *e {
                if b - start < st + 4 {
                    in_header = true;
                } else {
                    in_body = true;
                }
                found = true;
                break;
            }
            start = *e;
        }
        if !found {
            // in the tail
            if b - start < st + 4 {
                in_header = true;
            } else {
                in_body = true;
            }
        }
    }
    if in_header {
        loc.outcome("executions with a fragment boundary inside a fixed header");
    }
    if in_body {
        loc.outcome("executions with a fragment boundary inside a message body");
    }
    if on_end {
        loc.outcome("executions with a fragment boundary exactly on a message end");
    }
    if ch.interrupts > 0 {
        loc.outcome_n("interrupted reads delivered", ch.interrupts as u64);
    }
    if ch.pendings > 0 {
        loc.outcome_n("pending polls delivered", ch.pendings as u64);
    }
}

fn report(spec: &StreamSpec, exp: &Expected, obs: &[u8], schedule: String, why: String, loc: &mut Local) {
    let key = if obs.contains(&O_PANIC) {
        if exp.terminal == Terminal::ShortLen { "declared length < 4".to_string() } else { "reader panics".to_string() }
    } else {
        "reader result differs from cutting the stream".to_string()
    };
    loc.violation(
        key,
        format!("{}\n    stream ({} bytes, {}): {}\n    schedule: {}\n    observed: {:?}\n    expected: {} complete piece(s), then {:?}", why, spec.bytes.len(), spec.what, hex_short(&spec.bytes), schedule, obs.iter().map(|c| code_name(*c)).collect::<Vec<_>>(), exp.pieces.len(), exp.terminal),
        json!({"stream_hex": hex_short(&spec.bytes), "with_storage_header": spec.storage, "schedule": schedule}),
    );
}

/// one execution with a fixed schedule (composition / uniform chunks, 0 = Interrupted)
fn run_fixed(spec: &StreamSpec, data: &Rc<Vec<u8>>, exp: &Expected, sched: Vec<u32>, loc: &mut Local) -> Vec<u8> {
    let ch: Shared = Rc::new(RefCell::new(Chooser::default()));
    let sdesc = format!("fixed read results {:?} (0 = Interrupted), then everything", sched);
    let obs = drive_blocking(data, spec.storage, exp, &ch, Some(sched), 0, false);
    loc.evals += 1;
    loc.traces += 1;
    let c = ch.borrow();
    loc.transitions += c.boundaries.len() as u64 + c.interrupts as u64;
    classify_boundaries(&c, exp, spec.storage, loc);
    if let Some(why) = disagreement(&obs, exp) {
        report(spec, exp, &obs, sdesc, why, loc);
    } else {
        loc.sample(|| json!({"stream": hex_short(&spec.bytes), "what": spec.what, "schedule": sdesc, "results": obs.iter().map(|c| code_name(*c)).collect::<Vec<_>>()}));
    }
    obs
}

/// deviation-bounded exploration of one stream
fn run_explore(spec: &StreamSpec, bound: u32, full_menu_limit: usize, max_exec: u64, big_buffers: bool, loc: &mut Local) -> u64 {
    let data = Rc::new(spec.bytes.clone());
    let exp = oracle(&spec.bytes, spec.storage);
    let sid = fnv64(&spec.bytes) ^ spec.storage as u64;
    let mut first_obs: Option<Vec<u8>> = None;
    let mut viols: Vec<(Vec<u8>, String, String)> = vec![];
    let mut states: Vec<u64> = vec![];
    let mut locals = (0u64, 0u64); // (transitions, executions)
    let mut tallies: Vec<Chooser> = vec![];
    let (count, capped) = {
        let mut run = |prefix: &[u32]| {
            let ch: Shared = Rc::new(RefCell::new(Chooser { prefix: prefix.to_vec(), ..Default::default() }));
            let obs = drive_blocking(&data, spec.storage, &exp, &ch, None, full_menu_limit, big_buffers);
            let c = Rc::try_unwrap(ch).map(|r| r.into_inner()).unwrap_or_default();
            (c, obs)
        };
        let mut visit = |ex: &Execution<Vec<u8>>, devs: u32| {
            locals.0 += ex.choices.len() as u64;
            locals.1 += 1;
            for (i, t) in ex.chooser.trace.iter().enumerate() {
                let d = ex.choices[..i].iter().filter(|c| **c != 0).count() as u64;
                states.push(mix(sid, mix(t.2 as u64, mix(t.3 as u64, d))));
            }
            if let Some(why) = disagreement(&ex.observation, &exp) {
                if viols.len() < 3 {
                    viols.push((ex.observation.clone(), format!("choices {:?} (0 = deliver all that is asked for; k = k-th alternative size; last option = Interrupted) with {} deviation(s); read results ended at offsets {:?}", ex.choices, devs, ex.chooser.boundaries), why));
                }
            }
            if first_obs.is_none() {
                first_obs = Some(ex.observation.clone());
            }
            if tallies.len() < 4096 {
                // keep chooser stats cheaply: only what classify needs
                tallies.push(Chooser { boundaries: ex.chooser.boundaries.clone(), interrupts: ex.chooser.interrupts, pendings: ex.chooser.pendings, ..Default::default() });
            }
        };
        explore(bound, max_exec, &mut run, &mut visit)
    };
    loc.evals += count;
    loc.traces += count;
    loc.transitions += locals.0;
    for s in states {
        loc.state(s, true);
    }
    for t in &tallies {
        classify_boundaries(t, &exp, spec.storage, loc);
    }
    if capped {
        loc.outcome("streams whose exploration hit the execution cap");
    }
    if viols.is_empty() {
        loc.sample(|| json!({"stream": hex_short(&spec.bytes), "what": spec.what, "executions": count, "deviation_bound": bound, "results_of_default_schedule": first_obs.as_ref().map(|o| o.iter().map(|c| code_name(*c)).collect::<Vec<_>>())}));
    }
    for (obs, sched, why) in viols {
        report(spec, &exp, &obs, sched, why, loc);
    }
    count
}

pub fn run(ctx: &Ctx) {
    ctx.enable_trace_pass(ctx.tier.pick(3000u64, 30000u64));
    ctx.set_rule("case = (byte stream, schedule of read results); streams: all sequences of 1..3 messages over an 8-message alphabet (incl. a complete but unparsable 4-byte message), every truncation, hostile length fields, all short strings over a 7-symbol alphabet; schedules: ALL compositions of the stream into read results for short streams, all choice sequences with at most d deviations (short reads of every size, Interrupted) otherwise, all uniform chunk sizes, single Interrupted placements; a state is (stream, bytes delivered, messages emitted, deviations used) at a choice point; oracle = the harness's own cutter + dlt_message on each piece");
    ctx.assume("the reader is built with with_capacity(65551, 65551, ..) for bulk exploration (std zero-fills the 10 MiB buffer of `new` for a custom Read; 520 us per execution): a d<=1 subset uses DltMessageReader::new");
    ctx.assume("for streams longer than 64 bytes the menu of short-read sizes is the boundary set {1..5,15..22,255,256,4095,4096,65534..65536,max-5..max-1,max/2}, not every size");
    let bound = ctx.tier.pick(2u32, 3u32);
    crate::bulk::run_bulk_families(ctx, "c07", false);
    // (a) message sequences, deviation-bounded
    {
        let specs = sequence_streams(ctx.tier.pick(2, 3), true);
        let n = specs.len() as u64;
        let specs = &specs;
        ctx.put("deviation_bound_completed", json!(bound));
        ctx.run_family(Family::new("c07.sequences.deviations", n, format!("all sequences of 1..={} messages over the alphabet (7 messages incl. a 298-byte one + a complete unparsable 4-byte message) x storage mode; every choice sequence with <= {} deviations", ctx.tier.pick(2, 3), bound), move |i, loc| {
            run_explore(&specs[i as usize], bound, 64, 3_000_000, false, loc);
        }).chunk(1));
        // uniform chunk sizes, each also with one Interrupted at every position
        ctx.run_family(Family::new("c07.sequences.uniform", n, "the same streams under every uniform schedule 'at most c bytes per read' for c = 1..=min(n,70) and c in the boundary set; each also with a single Interrupted inserted at every position of the schedule (streams <= 80 bytes)", move |i, loc| {
            let spec = &specs[i as usize];
            let data = Rc::new(spec.bytes.clone());
            let exp = oracle(&spec.bytes, spec.storage);
            let n = spec.bytes.len();
            let mut cs: Vec<usize> = (1..=n.min(70)).collect();
            cs.extend([255usize, 256, 297, 298, 299, 314, n.saturating_sub(1), n].iter().filter(|c| **c > 70 && **c <= n));
            loc.state(fnv64(&spec.bytes) ^ 0x55 ^ spec.storage as u64, true);
            for c in cs {
                let k = (n + c - 1) / c;
                let sched: Vec<u32> = vec![c as u32; k];
                run_fixed(spec, &data, &exp, sched.clone(), loc);
                if n <= 80 {
                    for p in 0..=k {
                        let mut s2 = sched.clone();
                        s2.insert(p, 0);
                        run_fixed(spec, &data, &exp, s2, loc);
                    }
                }
            }
        }).chunk(1));
    }
    // (b) truncations of the sequence streams
    {
        let specs: Vec<StreamSpec> = sequence_streams(2, false).into_iter().filter(|s| s.bytes.len() <= 90).collect();
        let mut cases: Vec<(usize, usize)> = vec![];
        for (i, s) in specs.iter().enumerate() {
            for cut in 0..s.bytes.len() {
                cases.push((i, cut));
            }
        }
        let (specs, cases) = (&specs, &cases);
        ctx.run_family(Family::new("c07.truncations", cases.len() as u64, format!("every truncation of the {} sequence streams of at most 90 bytes; every choice sequence with <= 1 deviation plus byte-at-a-time", specs.len()), move |i, loc| {
            let (si, cut) = cases[i as usize];
            let spec = StreamSpec { bytes: specs[si].bytes[..cut].to_vec(), storage: specs[si].storage, what: format!("{} cut at {}", specs[si].what, cut) };
            run_explore(&spec, 1, 128, 1_000_000, false, loc);
            let data = Rc::new(spec.bytes.clone());
            let exp = oracle(&spec.bytes, spec.storage);
            run_fixed(&spec, &data, &exp, vec![1; cut], loc);
        }));
    }
    // (c) hostile length fields
    {
        let specs = hostile_streams();
        let n = specs.len() as u64;
        let specs = &specs;
        ctx.run_family(Family::new("c07.hostile", n, format!("headers declaring LEN in {{0,1,2,3,4,5,13,14,15,65535}} x 6 HTYP bytes x 0/3/20 following bytes x alone / after a good message x storage mode; every choice sequence with <= {} deviations", bound), move |i, loc| {
            run_explore(&specs[i as usize], bound, 64, 2_000_000, false, loc);
        }).chunk(1));
    }
    // (d) all compositions of short streams
    {
        let max_n = ctx.tier.pick(18usize, 22usize);
        let specs: Vec<StreamSpec> = sequence_streams(3, false).into_iter().chain(hostile_streams()).filter(|s| s.bytes.len() >= 2 && s.bytes.len() <= max_n).collect();
        let mut bounds = vec![];
        let mut total = 0u64;
        for s in &specs {
            total += 1u64 << (s.bytes.len() - 1);
            bounds.push(total);
        }
        let (specs, bounds) = (&specs, &bounds);
        ctx.run_family(Family::new("c07.compositions", total, format!("ALL 2^(n-1) compositions of the stream into read results for the {} streams of 2..={} bytes (message sequences and hostile headers)", specs.len(), max_n), move |i, loc| {
            let s = bounds.partition_point(|b| *b <= i);
            let mask = if s > 0 { i - bounds[s - 1] } else { i };
            let spec = &specs[s];
            // Rc/oracle per case is cheap for streams this small
            let data = Rc::new(spec.bytes.clone());
            let exp = oracle(&spec.bytes, spec.storage);
            let comp = composition(spec.bytes.len(), mask);
            loc.state(mix(fnv64(&spec.bytes) ^ spec.storage as u64, mask), true);
            run_fixed(spec, &data, &exp, comp.clone(), loc);
            // single Interrupted placements on top of every composition of streams <= 12 bytes
            if spec.bytes.len() <= 12 {
                for p in 0..=comp.len() {
                    let mut c2 = comp.clone();
                    c2.insert(p, 0);
                    run_fixed(spec, &data, &exp, c2, loc);
                }
            }
        }));
    }
    // (e) all short strings over a small alphabet, all compositions
    {
        static RA: [u8; 7] = [0x00, 0x01, 0x04, 0x08, 0x20, 0x21, 0xFF];
        let fam = strings_over(&RA, ctx.tier.pick(5, 7), "r");
        let gen = &fam.gen;
        ctx.run_family(Family::new("c07.short_strings", fam.size * 2, format!("{} x storage mode (storage mode: a storage header is put in front); ALL compositions of each", fam.about), move |i, loc| {
            let storage = i % 2 == 1;
            let raw = gen(i / 2);
            if raw.is_empty() {
                return;
            }
            let bytes = if storage { with_storage(raw) } else { raw };
            // compositions of the non-storage part only would miss header cuts: compose everything for <= 12 bytes, else the last 8
            let spec = StreamSpec { bytes, storage, what: "short string".into() };
            let data = Rc::new(spec.bytes.clone());
            let exp = oracle(&spec.bytes, spec.storage);
            let n = spec.bytes.len();
            loc.state(fnv64(&spec.bytes) ^ storage as u64, true);
            if n <= 8 {
                for mask in 0..(1u64 << (n - 1)) {
                    run_fixed(&spec, &data, &exp, composition(n, mask), loc);
                }
            } else {
                // storage mode: 17..23 bytes: all compositions of the last 7 bytes x {header in one piece, header byte-wise}
                let tail = 7.min(n - 1);
                for mask in 0..(1u64 << tail) {
                    let full_mask = mask << (n - 1 - tail);
                    run_fixed(&spec, &data, &exp, composition(n, full_mask), loc);
                    run_fixed(&spec, &data, &exp, composition(n, full_mask | ((1u64 << (n - 1 - tail)) - 1)), loc);
                }
            }
        }));
    }
    // (f) maximal message: boundary-set menu, d <= 1; and the default constructor on a d<=1 subset
    {
        let big = {
            let mut v = encode(&msg_with(0x00, 1, None, RefPayload::NonVerbose(7, vec![0xA5; 65_535 - 8]), None)).0;
            v.extend_from_slice(&encode(&message_alphabet()[0]).0);
            v
        };
        let specs = vec![
            StreamSpec { bytes: big.clone(), storage: false, what: "a 65535-byte message followed by an 8-byte message".into() },
            StreamSpec { bytes: with_storage(big[..65_535].to_vec()).into_iter().chain(with_storage(big[65_535..].to_vec())).collect(), storage: true, what: "a 65535-byte message followed by an 8-byte message, storage headers".into() },
            StreamSpec { bytes: big[..70].to_vec(), storage: false, what: "a header declaring 65535 bytes with only 70 present".into() },
        ];
        let specs = &specs;
        ctx.run_family(Family::new("c07.maximal", 3, "a maximal (65535-byte) message followed by a short one, with and without storage headers, and its truncation; boundary-set menu, every choice sequence with <= 1 deviation", move |i, loc| {
            run_explore(&specs[i as usize], 1, 64, 100_000, false, loc);
        }).chunk(1));
        let subset: Vec<StreamSpec> = sequence_streams(2, false).into_iter().step_by(ctx.tier.pick(9, 3)).collect();
        let m = subset.len() as u64;
        let subset = &subset;
        ctx.run_family(Family::new("c07.default_constructor", m, "DltMessageReader::new (10 MiB buffers) on a subset of the sequence streams: every choice sequence with <= 1 deviation over the boundary-set menu", move |i, loc| {
            run_explore(&subset[i as usize], 1, 8, 200, true, loc);
        }).chunk(1));
    }
}
