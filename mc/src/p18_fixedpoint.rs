//! C18 -- fixed-point arguments convert to quantization x value + offset without panicking.
//! Space: every kind x every Value variant (integer value alphabets per width) x fixed-point data
//! {absent, quantization alphabet x offset alphabet (I32 and I64)} -- the complete product.
use crate::common::*;
use dlt_core::dlt::*;
use serde_json::json;

pub fn kinds() -> Vec<TypeInfoKind> {
    use TypeLength::*;
    let mut v = vec![TypeInfoKind::Bool];
    for l in [BitLength8, BitLength16, BitLength32, BitLength64, BitLength128] {
        v.push(TypeInfoKind::Signed(l));
    }
    for l in [BitLength8, BitLength16, BitLength32, BitLength64, BitLength128] {
        v.push(TypeInfoKind::Unsigned(l));
    }
    for w in [FloatWidth::Width32, FloatWidth::Width64] {
        v.push(TypeInfoKind::SignedFixedPoint(w));
        v.push(TypeInfoKind::UnsignedFixedPoint(w));
        v.push(TypeInfoKind::Float(w));
    }
    v.push(TypeInfoKind::StringType);
    v.push(TypeInfoKind::Raw);
    v
}

fn values(tier: Tier) -> Vec<Value> {
    let mut v = vec![
        Value::Bool(0),
        Value::Bool(1),
        Value::F32(1.5),
        Value::F64(-2.5),
        Value::StringVal("x".into()),
        Value::Raw(vec![1, 2]),
        Value::U128(0),
        Value::U128(1000),
        Value::U128(u128::MAX),
        Value::I128(-1),
        Value::I128(1000),
        Value::I128(i128::MIN),
    ];
    let extra = tier == Tier::Thorough;
    macro_rules! ints {
        ($var:ident, $t:ty, $($x:expr),*) => {{
            for x in [$($x),*] { v.push(Value::$var(x as $t)); }
            v.push(Value::$var(<$t>::MIN));
            v.push(Value::$var(<$t>::MAX));
            if extra {
                v.push(Value::$var(<$t>::MAX - 1));
                v.push(Value::$var(<$t>::MAX / 2));
                v.push(Value::$var((<$t>::MAX / 2).wrapping_add(1)));
                v.push(Value::$var(3 as $t));
                v.push(Value::$var(100 as $t));
            }
        }};
    }
    ints!(U8, u8, 0, 1, 200);
    ints!(U16, u16, 0, 1, 1000);
    ints!(U32, u32, 0, 1, 1000, 0x0102_0304u32);
    ints!(U64, u64, 0, 1, 1000, 1u64 << 53, (1u64 << 53) + 1, 1u64 << 63);
    ints!(I8, i8, 0, 1, -1, 100);
    ints!(I16, i16, 0, 1, -1, 1000, -1000);
    ints!(I32, i32, 0, 1, -1, 1000, -1000);
    ints!(I64, i64, 0, 1, -1, 1000, -1000, 1i64 << 53, (1i64 << 53) + 1);
    v
}

fn quantizations(tier: Tier) -> Vec<f32> {
    let mut q = vec![
        0.0f32,
        -0.0,
        1.0,
        -1.0,
        0.5,
        -0.5,
        0.01,
        2.0,
        1e30,
        -1e30,
        f32::NAN,
        f32::INFINITY,
        f32::NEG_INFINITY,
        f32::MIN_POSITIVE,
        f32::from_bits(1),
        f32::MAX,
    ];
    if tier == Tier::Thorough {
        q.extend_from_slice(&[
            0.1,
            0.25,
            0.999_999,
            1.000_000_1,
            3.0,
            10.0,
            1000.0,
            1e9,
            1e18,
            9.223_372e18,
            1.844_674_4e19,
            1e-30,
            -2.0,
            -1e9,
            f32::MIN,
            f32::from_bits(0x7fc0_0001),
            16_777_216.0,
            4_294_967_296.0,
        ]);
    }
    q
}

fn offsets(tier: Tier) -> Vec<FixedPointValue> {
    let mut o = vec![];
    let mut i32s = vec![0i32, 1, -1, 200, -200, i32::MIN, i32::MAX];
    let mut i64s = vec![0i64, 1, -1, 200, -200, i64::MIN, i64::MAX];
    if tier == Tier::Thorough {
        i32s.extend_from_slice(&[-50, 1000, -1000, 0x0102_0304, i32::MIN + 1, i32::MAX - 1]);
        i64s.extend_from_slice(&[
            -50,
            1000,
            -1000,
            1 << 53,
            -(1 << 53),
            i64::MIN + 1,
            i64::MAX - 1,
            i32::MAX as i64 + 1,
            i32::MIN as i64 - 1,
        ]);
    }
    for v in i32s {
        o.push(FixedPointValue::I32(v));
    }
    for v in i64s {
        o.push(FixedPointValue::I64(v));
    }
    o
}

fn int_value_f64(v: &Value) -> Option<f64> {
    Some(match v {
        Value::U8(x) => *x as f64,
        Value::U16(x) => *x as f64,
        Value::U32(x) => *x as f64,
        Value::U64(x) => *x as f64,
        Value::I8(x) => *x as f64,
        Value::I16(x) => *x as f64,
        Value::I32(x) => *x as f64,
        Value::I64(x) => *x as f64,
        _ => return None,
    })
}
fn is_integer_value(v: &Value) -> bool {
    matches!(
        v,
        Value::U8(_)
            | Value::U16(_)
            | Value::U32(_)
            | Value::U64(_)
            | Value::U128(_)
            | Value::I8(_)
            | Value::I16(_)
            | Value::I32(_)
            | Value::I64(_)
            | Value::I128(_)
    )
}

/// Judge one argument (shared by all families).
fn judge(kind: TypeInfoKind, value: Value, fixed_point: Option<FixedPoint>, idx: u64, loc: &mut Local) {
            let arg = Argument {
                type_info: TypeInfo { kind: kind.clone(), coding: StringCoding::UTF8, has_variable_info: false, has_trace_info: false },
                name: None,
                unit: None,
                fixed_point: fixed_point.clone(),
                value: value.clone(),
            };
            let is_fp_kind = matches!(kind, TypeInfoKind::SignedFixedPoint(_) | TypeInfoKind::UnsignedFixedPoint(_));
            let formula_applies = is_fp_kind && fixed_point.is_some() && int_value_f64(&value).is_some();
            loc.evals += 1;
            loc.transitions += 1;
            loc.traces += 1;
            loc.state(idx, formula_applies);
            let describe = || format!("kind={:?} value={:?} fixed_point={:?}", kind, value, fixed_point.as_ref().map(|f| (f.quantization, f.quantization.to_bits(), f.offset.clone())));
            match catch(|| arg.to_real_value()) {
                Err(p) => {
                    loc.outcome("panic");
                    let site = p.rsplit('@').next().unwrap_or("").trim().to_string();
                    loc.violation(format!("to_real_value panics @ {}", site), format!("to_real_value panicked ({}) for {}", p, describe()), json!({"panic": p, "case": describe()}));
                }
                Ok(res) => {
                    if res.is_some() && !(is_fp_kind && fixed_point.is_some() && is_integer_value(&value)) {
                        loc.outcome("unexpected_some");
                        loc.violation("to_real_value Some for non fixed-point", format!("to_real_value returned {:?} although the argument is not (fixed-point kind, fixed-point data, integer value): {}", res, describe()), json!({"case": describe()}));
                        return;
                    }
                    if formula_applies {
                        let fp = fixed_point.as_ref().unwrap();
                        let p = (int_value_f64(&value).unwrap() * fp.quantization as f64).trunc();
                        let off: i128 = match fp.offset {
                            FixedPointValue::I32(v) => v as i128,
                            FixedPointValue::I64(v) => v as i128,
                        };
                        // p >= 0 excludes NaN; p < 2^64 keeps the i128 conversion exact
                        if p >= 0.0 && p < 18_446_744_073_709_551_616.0 {
                            let sum = p as i128 + off;
                            if sum >= 0 && sum < (1i128 << 63) {
                                if res != Some(sum as u64) {
                                    loc.outcome("wrong_sum");
                                    loc.violation("to_real_value wrong sum", format!("to_real_value = {:?}, expected Some({}) (= trunc(value*quantization) {} + offset {}) for {}", res, sum, p, off, describe()), json!({"case": describe(), "expected": sum.to_string()}));
                                } else {
                                    loc.outcome("exact_sum_checked");
                                    loc.sample(|| json!({"case": describe(), "result": sum.to_string()}));
                                }
                                return;
                            }
                        }
                        loc.outcome("formula_out_of_stated_range(no-panic only)");
                    } else if res.is_none() {
                        loc.outcome("none");
                    } else {
                        loc.outcome("some_128bit");
                    }
                }
            }
}

pub fn run(ctx: &Ctx) {
    ctx.enable_trace_pass(ctx.tier.pick(20000u64, 200000u64));
    ctx.set_rule("case = (kind, value, fixed-point data); complete product of the alphabets; non-trivial = fixed-point kind with data and an integer value (the conversion formula is actually evaluated)");
    ctx.assume("exactness is judged for integer values of up to 64 bits (the statement's formula uses double precision; 128-bit values are only checked for no-panic and for the 'Some only if' clause)");
    let ks = kinds();
    let vs = values(ctx.tier);
    let qs = quantizations(ctx.tier);
    let os = offsets(ctx.tier);
    // fixed point dimension: index 0 = absent, else (q, o)
    let nfp = 1 + qs.len() * os.len();
    let space = Space::new(&[ks.len(), vs.len(), nfp]);
    ctx.put("alphabet", json!({"kinds": ks.len(), "values": vs.len(), "quantizations": qs.len(), "offsets": os.len()}));
    let (ks, vs, qs, os) = (&ks, &vs, &qs, &os);
    let sp = space.clone();
    ctx.run_family(Family::new(
        "c18.to_real_value",
        space.size(),
        format!("{} kinds x {} values x (absent + {} quantizations x {} offsets)", ks.len(), vs.len(), qs.len(), os.len()),
        move |idx, loc| {
            let c = sp.coords(idx);
            let kind = ks[c[0]].clone();
            let value = vs[c[1]].clone();
            let fixed_point = if c[2] == 0 {
                None
            } else {
                let j = c[2] - 1;
                Some(FixedPoint { quantization: qs[j % qs.len()], offset: os[j / qs.len()].clone() })
            };
            judge(kind, value, fixed_point, idx, loc);
        },
    ));
    // history: a conversion must not depend on the conversions before it (memoised scale factors,
    // "last argument" caches): ALL ordered pairs over an evenly spread subset of the product space
    {
        let total = space.size();
        let m: u64 = 700.min(total);
        let stride = (total / m).max(1);
        let sp = space.clone();
        let decode = move |idx: u64| {
            let c = sp.coords(idx);
            let fixed_point = if c[2] == 0 {
                None
            } else {
                let j = c[2] - 1;
                Some(FixedPoint { quantization: qs[j % qs.len()], offset: os[j / qs.len()].clone() })
            };
            (ks[c[0]].clone(), vs[c[1]].clone(), fixed_point)
        };
        ctx.run_family(Family::new("c18.history", m * m, format!("ALL ordered pairs (a, b) over {} cases spread evenly over the product space (every {}th): a is converted, then b is judged twice on the same thread", m, stride), move |i, loc| {
            let (ia, ib) = ((i / m) * stride, (i % m) * stride);
            let (ka, va, fa) = decode(ia);
            let arg = Argument { type_info: TypeInfo { kind: ka, coding: StringCoding::UTF8, has_variable_info: false, has_trace_info: false }, name: None, unit: None, fixed_point: fa, value: va };
            let _ = catch(|| arg.to_real_value());
            let (kb, vb, fb) = decode(ib);
            judge(kb.clone(), vb.clone(), fb.clone(), ib, loc);
            judge(kb, vb, fb, ib, loc);
        }).distinct());
    }
    // dense family: bit-level value coverage x f32 exponent sweep x offsets
    {
        use FloatWidth::*;
        let fk = [TypeInfoKind::SignedFixedPoint(Width32), TypeInfoKind::UnsignedFixedPoint(Width32), TypeInfoKind::SignedFixedPoint(Width64), TypeInfoKind::UnsignedFixedPoint(Width64)];
        let mut vals: Vec<Value> = vec![];
        for b in 0..=255u8 {
            vals.push(Value::U8(b));
            vals.push(Value::I8(b as i8));
        }
        for x in (0..=65_535u32).filter(|x| x % 251 == 0 || *x < 20 || *x > 65_520 || (32_760..32_776).contains(x) || [1000, 12_345, 50_000, 100, 4321].contains(x)) {
            vals.push(Value::U16(x as u16));
            vals.push(Value::I16(x as u16 as i16));
        }
        for b in 0..32 {
            vals.push(Value::U32(1 << b));
            vals.push(Value::U32(!(1u32 << b)));
            vals.push(Value::I32((1u32 << b) as i32));
            vals.push(Value::I32(!(1u32 << b) as i32));
        }
        for b in 0..64 {
            vals.push(Value::U64(1 << b));
            vals.push(Value::U64(!(1u64 << b)));
            vals.push(Value::I64((1u64 << b) as i64));
            vals.push(Value::I64(!(1u64 << b) as i64));
        }
        for x in [3u32, 7, 199, 1000, 12_345, 1_000_000, 3_000_000_000, 4_000_000_007, 16_777_217, 2_147_483_647] {
            vals.push(Value::U32(x));
            vals.push(Value::I32(x as i32));
            vals.push(Value::U64(x as u64 * 1_000_003));
            vals.push(Value::I64(-(x as i64) * 1_000_003));
        }
        // "generic" bit patterns (fixed multiplicative-hash constants): nothing a boundary alphabet shares;
        // every 4th has its top bit forced (upper half of the unsigned range), plus alternating patterns
        for i in 1..=256u64 {
            let mut w = i.wrapping_mul(0x9E37_79B9_7F4A_7C15);
            if i % 4 == 0 {
                w |= 1 << 63;
            }
            vals.push(Value::U64(w));
            vals.push(Value::I64(w as i64));
            vals.push(Value::U32((w >> 32) as u32));
            vals.push(Value::I32((w >> 32) as u32 as i32));
        }
        for w in [0xAAAA_AAAA_AAAA_AAAAu64, 0x5555_5555_5555_5555, 0x8000_0000_0000_0401, 0xFFFF_FFFF_FFFF_F801, 0x8000_0000_0000_0001, 0xC000_0000_0000_0003, 0xFEDC_BA98_7654_3211] {
            vals.push(Value::U64(w));
            vals.push(Value::I64(w as i64));
        }
        let mut qs: Vec<f32> = vec![];
        for e in 0..=255u32 {
            for m in [0u32, 1, 0x0040_0000, 0x007F_FFFF, 0x0012_3456] {
                for sgn in [0u32, 1] {
                    qs.push(f32::from_bits((sgn << 31) | (e << 23) | m));
                }
            }
        }
        for d in [0.01f32, 0.1, 0.7, 0.3, 0.999_999_94, 1.000_000_1, 3.0, 7.0, 10.0, 100.0, 4321.0, 1e6, 1e9, 16_777_215.0, 16_777_216.0, 2_147_483_648.0, 4_294_967_296.0, 9.223_372e18, 1.844_674_4e19] {
            qs.push(d);
            qs.push(-d);
        }
        let mut os: Vec<FixedPointValue> = vec![];
        let base32 = [0i32, -1, -50, 5, 0x0102_0304, 1 << 30, i32::MIN, i32::MAX];
        let base64 = [0i64, -1, -45, (1 << 53) + 1, i64::MIN, i64::MAX, -(1 << 40), 0x0102_0304_0506_0708];
        for v in base32 {
            os.push(FixedPointValue::I32(v));
        }
        for v in base64 {
            os.push(FixedPointValue::I64(v));
        }
        if ctx.tier == Tier::Thorough {
            for b in 0..32 {
                os.push(FixedPointValue::I32((1u32 << b) as i32));
                os.push(FixedPointValue::I32(!(1u32 << b) as i32));
            }
            for b in 0..64 {
                os.push(FixedPointValue::I64((1u64 << b) as i64));
                os.push(FixedPointValue::I64(!(1u64 << b) as i64));
            }
        }
        let sp = Space::new(&[fk.len(), vals.len(), qs.len(), os.len()]);
        let s2 = sp.clone();
        let (vals, qs, os) = (&vals, &qs, &os);
        ctx.run_family(Family::new("c18.dense", sp.size(), format!("4 fixed-point kinds x {} integer values (all 256 of the 8-bit types, 16-bit every 251st + boundaries, walking ones/zeros of the 32/64-bit types, mid-range constants, 256 generic multiplicative-hash constants per 32/64-bit type with the upper half of u64 represented) x {} quantizations (every f32 exponent x 5 mantissas x sign; decimal and power-of-two constants) x {} offsets", vals.len(), qs.len(), os.len()), move |i, loc| {
            let c = s2.coords(i);
            judge(fk[c[0]].clone(), vals[c[1]].clone(), Some(FixedPoint { quantization: qs[c[2]], offset: os[c[3]].clone() }), i, loc);
        }).distinct());
    }
    // thorough: ALL 2^32 quantization bit patterns for a few (value, offset) pairs
    if ctx.tier == Tier::Thorough {
        use FloatWidth::*;
        let combos: Vec<(TypeInfoKind, Value, FixedPointValue)> = vec![
            (TypeInfoKind::UnsignedFixedPoint(Width32), Value::U16(3), FixedPointValue::I32(-1)),
            (TypeInfoKind::UnsignedFixedPoint(Width32), Value::U32(4_000_000_007), FixedPointValue::I32(5)),
            (TypeInfoKind::SignedFixedPoint(Width64), Value::I16(12_345), FixedPointValue::I64(-45)),
            (TypeInfoKind::SignedFixedPoint(Width32), Value::U8(199), FixedPointValue::I32(0)),
        ];
        let n = combos.len() as u64;
        let combos = &combos;
        ctx.run_family(Family::new("c18.all_quantizations", n << 32, "ALL 2^32 f32 quantization bit patterns x 4 (kind, value, offset) combinations: U16 3 / -1, U32 4000000007 / +5, I16 12345 / -45, U8 199 / 0", move |i, loc| {
            let (k, v, o) = &combos[(i >> 32) as usize];
            judge(k.clone(), v.clone(), Some(FixedPoint { quantization: f32::from_bits(i as u32), offset: o.clone() }), i, loc);
        }).distinct());
    }
}
