//! Shared machinery: run context, parallel family runner, panic capture, evidence and replay
//! artefact writers, known-findings handling.
//!
//! Vocabulary (DESIGN.md section 2): a *family* is one index-addressable finite space of cases;
//! `run(idx)` judges case `idx` on the real implementation.  Every family is enumerated
//! completely (0..size) -- nothing is sampled.  A *state* is a distinct case (64-bit hash),
//! a *transition* is one judged call of the subject API / one environment answer applied.

use serde_json::{json, Map, Value};
use std::cell::RefCell;
use std::collections::{BTreeMap, HashSet};
use std::panic::{catch_unwind, AssertUnwindSafe};
use std::sync::atomic::{AtomicBool, AtomicU64, Ordering};
use std::sync::Mutex;
use std::time::Instant;

/// Root of the verification tree: `DLTMC_VERIF_DIR`, else derived from the location of this binary
/// (`<root>/mc/target/release/dltmc`), else `/verif`.  Scratch copies used for mutant trials
/// therefore write their evidence and replays into the copy, never into /verif.
pub fn verif_dir() -> String {
    if let Ok(d) = std::env::var("DLTMC_VERIF_DIR") {
        return d;
    }
    if let Ok(exe) = std::env::current_exe() {
        if let Some(root) = exe.ancestors().nth(4) {
            if root.join("known_findings.json").exists() {
                return root.to_string_lossy().to_string();
            }
        }
    }
    "/verif".to_string()
}
/// The repository under test (only used for reading its sample FIBEX files; the code itself is
/// linked as a cargo path dependency).
pub fn repo_dir() -> String {
    std::env::var("DLTMC_REPO").unwrap_or_else(|_| "/repo".to_string())
}
pub const MAX_REPORTED: usize = 12;

#[derive(Clone, Copy, PartialEq, Eq, Debug)]
pub enum Tier {
    Quick,
    Thorough,
}
impl Tier {
    pub fn name(self) -> &'static str {
        match self {
            Tier::Quick => "quick",
            Tier::Thorough => "thorough",
        }
    }
    pub fn pick<T>(self, q: T, t: T) -> T {
        match self {
            Tier::Quick => q,
            Tier::Thorough => t,
        }
    }
}

// ---------------------------------------------------------------------------------------------
// panic capture
// ---------------------------------------------------------------------------------------------

thread_local! {
    static LAST_PANIC: RefCell<Option<String>> = const { RefCell::new(None) };
    static IN_SUBJECT: RefCell<bool> = const { RefCell::new(false) };
}

pub fn install_panic_hook() {
    std::panic::set_hook(Box::new(|info| {
        let msg = if let Some(s) = info.payload().downcast_ref::<&str>() {
            (*s).to_string()
        } else if let Some(s) = info.payload().downcast_ref::<String>() {
            s.clone()
        } else {
            "<non-string panic payload>".to_string()
        };
        let loc = info
            .location()
            .map(|l| format!("{}:{}", l.file(), l.line()))
            .unwrap_or_else(|| "?".into());
        // a subject that hands out invalid UTF-8 inside a `String` (undefined behaviour behind
        // from_utf8_unchecked) can put such bytes into its panic message: sanitise before anything
        // formats it again
        let text = String::from_utf8_lossy(format!("{} @ {}", msg, loc).as_bytes()).into_owned();
        let in_subject = IN_SUBJECT.with(|f| *f.borrow());
        if in_subject {
            LAST_PANIC.with(|p| *p.borrow_mut() = Some(text));
        } else if text.contains("/repo/src/") {
            // a subject call the harness did not wrap: the family runner turns it into a violation
            LAST_PANIC.with(|p| *p.borrow_mut() = Some(text));
        } else {
            // a panic in the harness itself: machinery failure, make it loud
            eprintln!("MACHINERY PANIC: {}", text);
        }
    }));
}

/// Run a call of the subject; a panic (incl. arithmetic overflow and debug assertions, which
/// the build profile turns on) is returned as `Err(message @ file:line)`.
pub fn catch<R>(f: impl FnOnce() -> R) -> Result<R, String> {
    IN_SUBJECT.with(|f| *f.borrow_mut() = true);
    let r = catch_unwind(AssertUnwindSafe(f));
    IN_SUBJECT.with(|f| *f.borrow_mut() = false);
    match r {
        Ok(v) => Ok(v),
        Err(_) => Err(LAST_PANIC
            .with(|p| p.borrow_mut().take())
            .unwrap_or_else(|| "panic (no message)".into())),
    }
}

// ---------------------------------------------------------------------------------------------
// hashing helpers
// ---------------------------------------------------------------------------------------------

pub fn fnv64(bytes: &[u8]) -> u64 {
    let mut h: u64 = 0xcbf29ce484222325;
    for b in bytes {
        h ^= *b as u64;
        h = h.wrapping_mul(0x100000001b3);
    }
    // final avalanche so that low bits are usable for sharding
    h ^= h >> 33;
    h = h.wrapping_mul(0xff51afd7ed558ccd);
    h ^= h >> 33;
    h
}
pub fn mix(a: u64, b: u64) -> u64 {
    let mut h = a ^ b.wrapping_mul(0x9E3779B97F4A7C15);
    h ^= h >> 29;
    h = h.wrapping_mul(0xBF58476D1CE4E5B9);
    h ^= h >> 32;
    h
}
pub fn hex(b: &[u8]) -> String {
    let mut s = String::with_capacity(b.len() * 2);
    for x in b {
        s.push_str(&format!("{:02x}", x));
    }
    s
}
/// hex for reports: long inputs are abbreviated (full input goes to the replay file only when short)
pub fn hex_short(b: &[u8]) -> String {
    if b.len() <= 160 {
        hex(b)
    } else {
        format!("{}..({} bytes)..{}", hex(&b[..96]), b.len(), hex(&b[b.len() - 32..]))
    }
}
pub fn unhex(s: &str) -> Vec<u8> {
    let s: Vec<u8> = s.bytes().filter(|c| c.is_ascii_hexdigit()).collect();
    s.chunks(2)
        .map(|c| u8::from_str_radix(std::str::from_utf8(c).unwrap(), 16).unwrap())
        .collect()
}

// ---------------------------------------------------------------------------------------------
// mixed-radix spaces
// ---------------------------------------------------------------------------------------------

/// Index-addressable product space: `dims[i]` options in dimension i; `coords(idx)` decodes.
#[derive(Clone, Debug)]
pub struct Space {
    pub dims: Vec<u64>,
}
impl Space {
    pub fn new(dims: &[usize]) -> Self {
        Space {
            dims: dims.iter().map(|d| *d as u64).collect(),
        }
    }
    pub fn size(&self) -> u64 {
        self.dims.iter().product()
    }
    pub fn coords(&self, mut idx: u64) -> Vec<usize> {
        let mut out = Vec::with_capacity(self.dims.len());
        for d in &self.dims {
            out.push((idx % d) as usize);
            idx /= d;
        }
        out
    }
}

// ---------------------------------------------------------------------------------------------
// violations, known findings
// ---------------------------------------------------------------------------------------------

#[derive(Clone, Debug)]
pub struct Violation {
    pub family: String,
    pub index: u64,
    /// stable identification of *what* fails (call site / input); matched against known findings
    pub key: String,
    pub description: String,
    pub details: Value,
}

#[derive(Clone, Debug)]
pub struct KnownEntry {
    pub status: String, // "known" | "fixed"
    pub property: String,
    pub key: String,
    pub what: String,
}

pub fn load_known_findings() -> Vec<KnownEntry> {
    let path = format!("{}/known_findings.json", verif_dir());
    let txt = match std::fs::read_to_string(&path) {
        Ok(t) => t,
        Err(_) => return vec![],
    };
    let v: Value = serde_json::from_str(&txt).expect("known_findings.json is not valid JSON");
    let mut out = vec![];
    if let Some(arr) = v.get("entries").and_then(|e| e.as_array()) {
        for e in arr {
            out.push(KnownEntry {
                status: e["status"].as_str().unwrap_or("").to_string(),
                property: e["property"].as_str().unwrap_or("").to_string(),
                key: e["key"].as_str().unwrap_or("").to_string(),
                what: e["what"].as_str().unwrap_or("").to_string(),
            });
        }
    }
    out
}

// ---------------------------------------------------------------------------------------------
// per-thread accumulator
// ---------------------------------------------------------------------------------------------

pub struct Local {
    pub evals: u64,
    pub transitions: u64,
    pub traces: u64,
    pub hashes: Vec<(u64, bool)>,
    pub outcomes: BTreeMap<String, u64>,
    pub violations: Vec<Violation>,
    pub viol_count: u64,
    pub samples: Vec<Value>,
    pub want_samples: usize,
    pub cur_index: u64,
    pub cur_family: String,
    /// when replaying: extra detail from the replay file (e.g. one schedule to re-run)
    pub replay_detail: Option<Value>,
    /// keys of `known` entries of known_findings.json for this property
    pub known_keys: Vec<String>,
    pub known_hits: BTreeMap<String, u64>,
    /// family whose cases are distinct by construction: states are counted, not hashed
    pub distinct: bool,
    pub nontrivial_direct: u64,
    /// set by families whose inputs are huge shared buffers: the case identity to use instead of
    /// hashing the whole input
    pub input_hash_override: Option<u64>,
    /// set by a judge whose violation was already confirmed by its own repeated execution (C12's
    /// hang detection re-runs the load alone): the runner then does not execute the case again
    pub already_confirmed: bool,
}
impl Local {
    #[inline]
    pub fn input_hash(&self, input: &[u8]) -> u64 {
        match self.input_hash_override {
            Some(h) => h,
            None => fnv64(input),
        }
    }
    pub fn new(family: &str, want_samples: usize) -> Self {
        Local {
            known_keys: Vec::new(),
            known_hits: BTreeMap::new(),
            distinct: false,
            nontrivial_direct: 0,
            input_hash_override: None,
            already_confirmed: false,
            evals: 0,
            transitions: 0,
            traces: 0,
            hashes: Vec::new(),
            outcomes: BTreeMap::new(),
            violations: Vec::new(),
            viol_count: 0,
            samples: Vec::new(),
            want_samples,
            cur_index: 0,
            cur_family: family.to_string(),
            replay_detail: None,
        }
    }
    /// one distinct case (state); `nontrivial` per the property's stated rule
    #[inline]
    pub fn state(&mut self, hash: u64, nontrivial: bool) {
        if self.distinct {
            self.nontrivial_direct += nontrivial as u64;
        } else {
            self.hashes.push((hash, nontrivial));
        }
    }
    #[inline]
    pub fn outcome(&mut self, name: &str) {
        if let Some(c) = self.outcomes.get_mut(name) {
            *c += 1;
        } else {
            self.outcomes.insert(name.to_string(), 1);
        }
    }
    pub fn outcome_n(&mut self, name: &str, n: u64) {
        *self.outcomes.entry(name.to_string()).or_insert(0) += n;
    }
    pub fn violation(&mut self, key: impl Into<String>, description: impl Into<String>, details: Value) {
        let key: String = key.into();
        if self.known_keys.iter().any(|k| *k == key) {
            *self.known_hits.entry(key).or_insert(0) += 1;
            return;
        }
        self.viol_count += 1;
        if self.violations.len() < MAX_REPORTED {
            self.violations.push(Violation {
                family: self.cur_family.clone(),
                index: self.cur_index,
                key,
                description: description.into(),
                details,
            });
        }
    }
    pub fn sample(&mut self, f: impl FnOnce() -> Value) {
        if self.samples.len() < self.want_samples {
            self.samples.push(f());
        }
    }
}

// ---------------------------------------------------------------------------------------------
// sink logger: dlt-core evaluates the arguments of trace!/warn! only when the log level admits
// them; several slice / format expressions live there.  The sink formats every record (which
// evaluates the expressions) and drops the text.  Installed once; the level is Off except during
// a trace pass.
// ---------------------------------------------------------------------------------------------
pub struct Sink;
impl log::Log for Sink {
    fn enabled(&self, _: &log::Metadata) -> bool {
        true
    }
    fn log(&self, record: &log::Record) {
        use std::fmt::Write;
        thread_local! { static BUF: RefCell<String> = const { RefCell::new(String::new()) }; }
        BUF.with(|b| {
            let mut b = b.borrow_mut();
            b.clear();
            let _ = write!(b, "{}", record.args());
        });
    }
    fn flush(&self) {}
}
pub static SINK: Sink = Sink;
pub fn install_sink_logger() {
    log::set_logger(&SINK).ok();
    log::set_max_level(log::LevelFilter::Off);
}

// ---------------------------------------------------------------------------------------------
// families and run context
// ---------------------------------------------------------------------------------------------

pub struct Family<'a> {
    pub name: String,
    pub size: u64,
    /// human description of alphabet / bound, goes to the evidence
    pub about: String,
    pub run: Box<dyn Fn(u64, &mut Local) + Sync + Send + 'a>,
    /// cases handed to a worker thread at a time
    pub chunk: u64,
    /// true if 0..size is by construction duplicate-free and too large to hash (2^32 sweep):
    /// the runner then counts states itself instead of hashing
    pub distinct_by_construction: bool,
    /// number of cases of this family that are re-run with the Trace-level sink logger
    /// (None: the context's default; Some(0): never)
    pub trace_budget: Option<u64>,
}
impl<'a> Family<'a> {
    pub fn trace(mut self, budget: u64) -> Self {
        self.trace_budget = Some(budget);
        self
    }
    pub fn new(
        name: impl Into<String>,
        size: u64,
        about: impl Into<String>,
        run: impl Fn(u64, &mut Local) + Sync + Send + 'a,
    ) -> Self {
        Family {
            name: name.into(),
            size,
            about: about.into(),
            run: Box::new(run),
            chunk: 0,
            distinct_by_construction: false,
            trace_budget: None,
        }
    }
    pub fn chunk(mut self, c: u64) -> Self {
        self.chunk = c;
        self
    }
    pub fn distinct(mut self) -> Self {
        self.distinct_by_construction = true;
        self
    }
}

#[derive(Default, Clone)]
pub struct FamilyStat {
    pub size: u64,
    pub about: String,
    pub evals: u64,
    pub transitions: u64,
    pub traces: u64,
    pub states: u64,
    pub nontrivial: u64,
    pub violations: u64,
    pub outcomes: BTreeMap<String, u64>,
    pub samples: Vec<Value>,
    pub wall_s: f64,
}

/// Breadcrumbs: which (family, index range) each worker thread is in, rewritten at every chunk start
/// into the file named by DLTMC_CRUMBS.  If the engine process dies (stack overflow, abort, OOM kill)
/// the driver bisects these ranges in child processes and reports the case that kills the process.
static CRUMBS: Mutex<Vec<(String, u64, u64)>> = Mutex::new(Vec::new());
fn crumb(slot: usize, family: &str, lo: u64, hi: u64) {
    let path = match std::env::var("DLTMC_CRUMBS") {
        Ok(p) => p,
        Err(_) => return,
    };
    let mut c = CRUMBS.lock().unwrap();
    while c.len() <= slot {
        c.push((String::new(), 0, 0));
    }
    c[slot] = (family.to_string(), lo, hi);
    let mut text = String::new();
    for (f, a, b) in c.iter() {
        if !f.is_empty() {
            text.push_str(&format!("{}\t{}\t{}\n", f, a, b));
        }
    }
    let _ = std::fs::write(&path, text);
}

pub struct Ctx {
    pub prop: String,
    pub tier: Tier,
    pub seed: u64,
    pub level: String,
    pub start: Instant,
    pub threads: usize,
    pub fams: Mutex<BTreeMap<String, FamilyStat>>,
    pub fam_order: Mutex<Vec<String>>,
    pub violations: Mutex<Vec<Violation>>,
    pub viol_total: AtomicU64,
    pub known: Vec<KnownEntry>,
    pub known_hits: Mutex<BTreeMap<String, u64>>,
    pub assumptions: Mutex<Vec<String>>,
    pub extra: Mutex<Map<String, Value>>,
    pub rule: Mutex<String>,
    pub exhaustive: AtomicBool,
    pub caps: Mutex<Vec<String>>,
    shards: Vec<Mutex<HashSet<u64>>>,
    pub replay: Option<Value>,
    /// default number of cases per family re-run under the Trace-level sink logger (0 = none)
    pub trace_default: AtomicU64,
    /// violations that did not reproduce when their case was executed again (reported, never a verdict)
    pub unreproducible: Mutex<Vec<String>>,
    /// `--range family lo hi`: run only these cases of this family, in this thread (crash triage)
    pub range: Option<(String, u64, u64)>,
}

const SHARDS: usize = 256;

impl Ctx {
    pub fn new(prop: &str, tier: Tier, level: &str) -> Self {
        let seed = std::env::var("VERIF_SEED")
            .ok()
            .and_then(|s| s.parse::<u64>().ok())
            .unwrap_or(0);
        let threads = std::env::var("DLTMC_THREADS")
            .ok()
            .and_then(|s| s.parse::<usize>().ok())
            .unwrap_or_else(|| std::thread::available_parallelism().map(|n| n.get()).unwrap_or(8));
        Ctx {
            prop: prop.to_string(),
            tier,
            seed,
            level: level.to_string(),
            start: Instant::now(),
            threads,
            fams: Mutex::new(BTreeMap::new()),
            fam_order: Mutex::new(vec![]),
            violations: Mutex::new(vec![]),
            viol_total: AtomicU64::new(0),
            known: load_known_findings(),
            known_hits: Mutex::new(BTreeMap::new()),
            assumptions: Mutex::new(vec![]),
            extra: Mutex::new(Map::new()),
            rule: Mutex::new(String::new()),
            exhaustive: AtomicBool::new(false),
            caps: Mutex::new(vec![]),
            shards: (0..SHARDS).map(|_| Mutex::new(HashSet::new())).collect(),
            replay: None,
            trace_default: AtomicU64::new(0),
            unreproducible: Mutex::new(vec![]),
            range: None,
        }
    }
    /// Enable the trace pass: every family is followed by a re-run of `budget` evenly spread cases
    /// with the log level at Trace (family name + ".trace").
    pub fn enable_trace_pass(&self, budget: u64) {
        install_sink_logger();
        self.trace_default.store(budget, Ordering::Relaxed);
        self.assume("trace pass: after each family an evenly spread subset of its cases is re-run with a Trace-level sink logger installed, so that the arguments of the crate's trace!/warn! statements (slice and format expressions) are evaluated; same oracle");
    }
    pub fn assume(&self, s: &str) {
        self.assumptions.lock().unwrap().push(s.to_string());
    }
    pub fn set_rule(&self, s: &str) {
        *self.rule.lock().unwrap() = s.to_string();
    }
    pub fn cap(&self, s: String) {
        self.caps.lock().unwrap().push(s);
    }
    pub fn put(&self, k: &str, v: Value) {
        self.extra.lock().unwrap().insert(k.to_string(), v);
    }
    fn known_keys(&self) -> Vec<String> {
        self.known
            .iter()
            .filter(|k| k.status == "known" && k.property == self.prop)
            .map(|k| k.key.clone())
            .collect()
    }
    fn new_local(&self, fam: &str, want_samples: usize) -> Local {
        let mut l = Local::new(fam, want_samples);
        l.known_keys = self.known_keys();
        l
    }

    fn absorb_hashes(&self, fam_name: &str, hashes: &mut Vec<(u64, bool)>) -> (u64, u64) {
        // family name is mixed in: a state is (family, case)
        let fh = fnv64(fam_name.as_bytes());
        let mut new_states = 0;
        let mut new_nontrivial = 0;
        for h in hashes.iter_mut() {
            h.0 = mix(h.0, fh);
        }
        hashes.sort_unstable_by_key(|(h, _)| *h as usize % SHARDS);
        let mut i = 0;
        while i < hashes.len() {
            let sh = hashes[i].0 as usize % SHARDS;
            let mut g = self.shards[sh].lock().unwrap();
            while i < hashes.len() && hashes[i].0 as usize % SHARDS == sh {
                if g.insert(hashes[i].0) {
                    new_states += 1;
                    if hashes[i].1 {
                        new_nontrivial += 1;
                    }
                }
                i += 1;
            }
        }
        hashes.clear();
        (new_states, new_nontrivial)
    }

    fn absorb_local(&self, fam: &Family, loc: &mut Local, stat: &Mutex<FamilyStat>) {
        let (ns, nn) = self.absorb_hashes(&fam.name, &mut loc.hashes);
        let mut st = stat.lock().unwrap();
        st.evals += loc.evals;
        st.transitions += loc.transitions;
        st.traces += loc.traces;
        st.states += ns;
        st.nontrivial += nn + loc.nontrivial_direct;
        loc.nontrivial_direct = 0;
        st.violations += loc.viol_count;
        for (k, v) in loc.outcomes.iter() {
            *st.outcomes.entry(k.clone()).or_insert(0) += v;
        }
        for s in loc.samples.drain(..) {
            if st.samples.len() < 3 {
                st.samples.push(s);
            }
        }
        drop(st);
        loc.evals = 0;
        loc.transitions = 0;
        loc.traces = 0;
        loc.viol_count = 0;
        loc.outcomes.clear();
        if !loc.violations.is_empty() {
            let mut vs = self.violations.lock().unwrap();
            for v in loc.violations.drain(..) {
                vs.push(v);
            }
        }
        if !loc.known_hits.is_empty() {
            let mut kh = self.known_hits.lock().unwrap();
            for (k, n) in loc.known_hits.iter() {
                *kh.entry(k.clone()).or_insert(0) += n;
            }
            loc.known_hits.clear();
        }
    }

    /// Enumerate the whole family on `threads` OS threads (dynamic chunking); then, when the trace
    /// pass is enabled, re-run an evenly spread subset with the log level at Trace.
    pub fn run_family(&self, fam: Family) {
        // auxiliary runs (Miri): DLTMC_CASE_CAP=n thins every family to at most n evenly spread cases
        let fam = match std::env::var("DLTMC_CASE_CAP").ok().and_then(|v| v.parse::<u64>().ok()) {
            Some(cap) if cap > 0 && fam.size > cap => {
                let stride = fam.size / cap;
                let Family { name, size: _, about, run, chunk: _, distinct_by_construction: _, trace_budget } = fam;
                Family { name, size: cap, about: format!("(capped to {} cases, every {}th) {}", cap, stride, about), run: Box::new(move |j, loc| run(j * stride, loc)), chunk: 1, distinct_by_construction: true, trace_budget: trace_budget.map(|b| b.min(cap / 4)) }
            }
            _ => fam,
        };
        let budget = fam.trace_budget.unwrap_or_else(|| self.trace_default.load(Ordering::Relaxed));
        if let Some((name, lo, hi)) = &self.range {
            // crash triage: only the named cases, in this thread, no bookkeeping
            let traced = format!("{}.trace", fam.name);
            if *name == fam.name || *name == traced {
                let is_trace = *name == traced;
                let stride = if is_trace && budget > 0 { (fam.size / budget).max(1) } else { 1 };
                if is_trace {
                    install_sink_logger();
                    log::set_max_level(log::LevelFilter::Trace);
                }
                // in a spawned thread: same (default) stack size as the worker threads of a normal run
                std::thread::scope(|sc| {
                    sc.spawn(|| {
                        let mut loc = self.new_local(&fam.name, 0);
                        loc.distinct = true;
                        for j in *lo..(*hi).min(if is_trace { (fam.size + stride - 1) / stride } else { fam.size }) {
                            loc.cur_index = j * stride;
                            (fam.run)(j * stride, &mut loc);
                        }
                    });
                });
                log::set_max_level(log::LevelFilter::Off);
            }
            return;
        }
        if let Some(rp) = &self.replay {
            let traced = format!("{}.trace", fam.name);
            if rp["family"].as_str() == Some(traced.as_str()) {
                install_sink_logger();
                log::set_max_level(log::LevelFilter::Trace);
                let f2 = Family { name: traced, size: fam.size, about: fam.about, run: fam.run, chunk: fam.chunk, distinct_by_construction: false, trace_budget: Some(0) };
                self.run_family_plain(f2);
                log::set_max_level(log::LevelFilter::Off);
                return;
            }
            self.run_family_plain(fam);
            return;
        }
        if budget == 0 || fam.size == 0 {
            self.run_family_plain(fam);
            return;
        }
        let Family { name, size, about, run, chunk, distinct_by_construction, .. } = fam;
        let run = std::sync::Arc::new(run);
        let r1 = run.clone();
        self.run_family_plain(Family { name: name.clone(), size, about: about.clone(), run: Box::new(move |i, loc| r1(i, loc)), chunk, distinct_by_construction, trace_budget: Some(0) });
        let stride = (size / budget).max(1);
        let n = (size + stride - 1) / stride;
        log::set_max_level(log::LevelFilter::Trace);
        let r2 = run.clone();
        let tname = format!("{}.trace", name);
        self.run_family_plain(Family {
            name: tname,
            size: n,
            about: format!("TRACE PASS (log level Trace, sink logger): every {}th case of: {}", stride, about),
            run: Box::new(move |j, loc| {
                // report the index of the underlying case so that a replay addresses it directly
                loc.cur_index = j * stride;
                r2(j * stride, loc)
            }),
            chunk: if chunk > 0 { chunk } else { 0 },
            distinct_by_construction: true,
            trace_budget: Some(0),
        });
        log::set_max_level(log::LevelFilter::Off);
    }

    fn run_family_plain(&self, fam: Family) {
        // safety net around every case: a panic raised inside dlt-core by a call the property module
        // did not wrap is a violation (of "never panics"), not a crash of the checker; any other
        // panic is a harness defect and propagates
        fn run_case(fam: &Family, idx: u64, loc: &mut Local) {
            if let Err(payload) = catch_unwind(AssertUnwindSafe(|| (fam.run)(idx, loc))) {
                IN_SUBJECT.with(|f| *f.borrow_mut() = false);
                match LAST_PANIC.with(|p| p.borrow_mut().take()) {
                    Some(text) if text.contains("/repo/src/") => {
                        let site = text.rsplit('@').next().unwrap_or("").trim().to_string();
                        loc.violation(format!("dlt-core panics @ {}", site), format!("a call into dlt-core panicked while case {} of family {} was judged: {}", idx, fam.name, text), json!({"panic": text}));
                    }
                    _ => std::panic::resume_unwind(payload),
                }
            }
        }
        if let Some(rp) = &self.replay {
            // replay mode: only the named family, only the recorded index
            if rp["family"].as_str() == Some(fam.name.as_str()) {
                let idx = rp["index"].as_u64().expect("replay file: index");
                let mut loc = self.new_local(&fam.name, 1);
                loc.cur_index = idx;
                loc.replay_detail = rp.get("details").cloned();
                run_case(&fam, idx, &mut loc);
                let stat = Mutex::new(FamilyStat::default());
                self.absorb_local(&fam, &mut loc, &stat);
                let st = stat.into_inner().unwrap();
                self.viol_total.fetch_add(st.violations, Ordering::Relaxed);
                self.fam_order.lock().unwrap().push(fam.name.clone());
                self.fams.lock().unwrap().insert(fam.name.clone(), st);
            }
            return;
        }
        let t0 = Instant::now();
        let stat = Mutex::new(FamilyStat {
            size: fam.size,
            about: fam.about.clone(),
            ..Default::default()
        });
        let next = AtomicU64::new(0);
        let chunk = if fam.chunk > 0 {
            fam.chunk
        } else {
            (fam.size / (self.threads as u64 * 64)).clamp(1, 4096).max(fam.size / (self.threads as u64 * 512))
        };
        let nthreads = self.threads.min(((fam.size + chunk - 1) / chunk).max(1) as usize);
        let stop = AtomicBool::new(false);
        std::thread::scope(|s| {
            for slot in 0..nthreads {
                let (next, stop, stat, fam) = (&next, &stop, &stat, &fam);
                s.spawn(move || {
                    let mut loc = self.new_local(&fam.name, 1);
                    loc.distinct = fam.distinct_by_construction;
                    let mut confirmations = 0u32;
                    loop {
                        let lo = next.fetch_add(chunk, Ordering::Relaxed);
                        if lo >= fam.size || stop.load(Ordering::Relaxed) {
                            break;
                        }
                        let hi = (lo + chunk).min(fam.size);
                        crumb(slot, &fam.name, lo, hi);
                        // fast path: the whole chunk runs under ONE catch_unwind (a per-case net costs ~8 ns,
                        // which is most of the time of the 10^11-case sweeps); only when a panic escapes a
                        // case is that case handled by the per-case net, and the chunk resumes behind it
                        let mut start = lo;
                        while start < hi {
                            // the index the loop is at (NOT loc.cur_index: the trace-pass wrapper
                                // overwrites that with the index of the underlying case)
                            let at = std::cell::Cell::new(start);
                            let r = catch_unwind(AssertUnwindSafe(|| {
                                for idx in start..hi {
                                    at.set(idx);
                                    loc.cur_index = idx;
                                    let before = loc.viol_count;
                                    let recorded = loc.violations.len();
                                    (fam.run)(idx, &mut loc);
                                    if loc.viol_count > before {
                                        // leave the fast path: this execution is discarded, the case is
                                        // executed again under the per-case machinery (and then confirmed)
                                        loc.viol_count = before;
                                        loc.violations.truncate(recorded);
                                        return Some(idx);
                                    }
                                }
                                None
                            }));
                            let idx = match r {
                                Ok(None) => break,
                                Ok(Some(idx)) => idx,
                                Err(_) => {
                                    IN_SUBJECT.with(|f| *f.borrow_mut() = false);
                                    at.get()
                                }
                            };
                            start = idx + 1;
                            // slow path for this one case (its first execution above is discarded / died)
                            loc.cur_index = idx;
                            let before = loc.viol_count;
                            let recorded = loc.violations.len();
                            run_case(&fam, idx, &mut loc);
                            // before a violation is trusted the case is executed twice more: the same
                            // case must fail the same way every time (a divergence means nondeterminism
                            // the harness does not own, or a subject whose verdict depends on history)
                            let skip_probe = std::mem::take(&mut loc.already_confirmed);
                            if loc.viol_count > before && loc.violations.len() > recorded && confirmations < 8 && !skip_probe {
                                confirmations += 1;
                                let key = loc.violations[recorded].key.clone();
                                for _ in 0..2 {
                                    let mut probe = self.new_local(&fam.name, 0);
                                    probe.distinct = true;
                                    probe.cur_index = idx;
                                    probe.input_hash_override = loc.input_hash_override;
                                    run_case(&fam, idx, &mut probe);
                                    if !probe.violations.iter().any(|v| v.key == key) {
                                        let d = loc.violations[recorded].description.chars().take(400).collect::<String>();
                                        self.unreproducible.lock().unwrap().push(format!("family {} index {} key [{}]: {}", fam.name, idx, key, d));
                                        // withdraw it: it is reported separately, not as a verdict
                                        loc.violations.truncate(recorded);
                                        loc.viol_count = before;
                                        break;
                                    }
                                }
                            }
                        }
                        if fam.distinct_by_construction {
                            stat.lock().unwrap().states += hi - lo;
                        }
                        if loc.hashes.len() > 200_000 || !loc.violations.is_empty() {
                            self.absorb_local(&fam, &mut loc, &stat);
                            // stop early once far too many violations were seen: the tree is
                            // broken for this family and the remaining cases add nothing
                            if stat.lock().unwrap().violations > 5_000 {
                                stop.store(true, Ordering::Relaxed);
                            }
                        }
                    }
                    self.absorb_local(&fam, &mut loc, &stat);
                });
            }
        });
        let mut st = stat.into_inner().unwrap();
        st.wall_s = t0.elapsed().as_secs_f64();
        if stop.load(Ordering::Relaxed) {
            self.cap(format!(
                "family {} stopped early after more than 5000 violations",
                fam.name
            ));
        }
        self.viol_total.fetch_add(st.violations, Ordering::Relaxed);
        eprintln!(
            "[{}] {:<36} size={:<10} evals={:<11} states={:<10} nontriv={:<10} trans={:<11} viol={} {:.2}s",
            self.prop, fam.name, st.size, st.evals, st.states, st.nontrivial, st.transitions, st.violations, st.wall_s
        );
        self.fam_order.lock().unwrap().push(fam.name.clone());
        self.fams.lock().unwrap().insert(fam.name.clone(), st);
    }

    /// Finish: print verdict lines, write replay artefacts and the evidence file, return exit code.
    pub fn finish(&self) -> i32 {
        let fams = self.fams.lock().unwrap().clone();
        let order = self.fam_order.lock().unwrap().clone();
        let (mut evals, mut states, mut nontrivial, mut transitions, mut traces) = (0u64, 0u64, 0u64, 0u64, 0u64);
        let mut fam_json = Map::new();
        let mut samples: Vec<Value> = vec![];
        for name in &order {
            let f = &fams[name];
            evals += f.evals;
            states += f.states;
            nontrivial += f.nontrivial;
            transitions += f.transitions;
            traces += f.traces;
            for s in f.samples.iter().take(2) {
                if samples.len() < 40 {
                    samples.push(json!({"family": name, "case": s}));
                }
            }
            fam_json.insert(
                name.clone(),
                json!({
                    "size": f.size, "about": f.about, "evaluations": f.evals, "states": f.states,
                    "nontrivial": f.nontrivial, "transitions": f.transitions,
                    "executions": f.traces, "violations": f.violations,
                    "outcomes": f.outcomes, "wall_s": (f.wall_s * 1000.0).round() / 1000.0,
                }),
            );
        }
        let total = self.viol_total.load(Ordering::Relaxed);
        let known_hits = self.known_hits.lock().unwrap().clone();
        for (key, n) in &known_hits {
            let what = self
                .known
                .iter()
                .find(|k| k.property == self.prop && k.key == *key)
                .map(|k| k.what.clone())
                .unwrap_or_default();
            println!("KNOWN-FINDING: property={} {} [key={} cases={}]", self.prop, what, key, n);
        }
        let real = self.violations.lock().unwrap().clone();
        let mut exit = 0;
        let unrep = self.unreproducible.lock().unwrap().clone();
        for u in unrep.iter().take(6) {
            println!("UNREPRODUCIBLE (the case did not fail again when executed twice more; not a verdict): {}", u);
        }
        let replay_mode = self.replay.is_some();
        if total > 0 {
            exit = 1;
            std::fs::create_dir_all(format!("{}/replays", verif_dir())).ok();
            // distinct keys first so the report shows different failure sites
            let mut seen: BTreeMap<String, usize> = BTreeMap::new();
            let mut n = 0;
            for v in &real {
                let c = seen.entry(v.key.clone()).or_insert(0);
                *c += 1;
                if *c > 2 || n >= MAX_REPORTED {
                    continue;
                }
                n += 1;
                let path = if replay_mode {
                    "(replayed)".to_string()
                } else {
                    let h = fnv64(format!("{}{}{}{}", v.family, v.index, v.key, v.description).as_bytes());
                    let path = format!("{}/replays/{}-{:016x}.json", verif_dir(), self.prop, h);
                    let body = json!({
                        "property": self.prop, "tier": self.tier.name(), "family": v.family, "index": v.index,
                        "key": v.key, "description": v.description, "details": v.details,
                    });
                    std::fs::write(&path, serde_json::to_string_pretty(&body).unwrap()).expect("write replay");
                    path
                };
                println!("VIOLATION property={} replay={}", self.prop, path);
                println!("  family={} index={} key={}", v.family, v.index, v.key);
                println!("  {}", v.description);
            }
            println!(
                "[{}] {} violating case(s) in total; distinct failure keys among the recorded ones: {:?}",
                self.prop,
                total,
                seen.keys().collect::<Vec<_>>()
            );
        }
        let wall = self.start.elapsed().as_secs_f64();
        if !replay_mode {
            let mut cov = Map::new();
            cov.insert("states".into(), json!(states));
            cov.insert("transitions".into(), json!(transitions));
            cov.insert("traces_validated_against_impl".into(), json!(traces));
            cov.insert("evaluations".into(), json!(evals));
            cov.insert("distinct_nontrivial".into(), json!(nontrivial));
            cov.insert("rule".into(), json!(self.rule.lock().unwrap().clone()));
            cov.insert("samples".into(), Value::Array(samples));
            cov.insert("exhaustive".into(), json!(self.exhaustive.load(Ordering::Relaxed)));
            cov.insert("families".into(), Value::Object(fam_json));
            cov.insert("caps_hit".into(), json!(self.caps.lock().unwrap().clone()));
            cov.insert("threads".into(), json!(self.threads));
            cov.insert("known_findings_matched".into(), json!(known_hits));
            cov.insert("unreproducible_violations_withdrawn".into(), json!(unrep.len()));
            for (k, v) in self.extra.lock().unwrap().iter() {
                cov.insert(k.clone(), v.clone());
            }
            let ev = json!({
                "property_id": self.prop,
                "tier": self.tier.name(),
                "seed": self.seed,
                "level": self.level,
                "coverage": Value::Object(cov),
                "assumptions": self.assumptions.lock().unwrap().clone(),
                "wall_s": (wall * 1000.0).round() / 1000.0,
                "violations": total,
            });
            std::fs::create_dir_all(format!("{}/evidence", verif_dir())).ok();
            let path = format!("{}/evidence/{}.json", verif_dir(), self.prop);
            std::fs::write(&path, serde_json::to_string_pretty(&ev).unwrap()).expect("write evidence");
        }
        eprintln!(
            "[{}] tier={} evaluations={} states={} transitions={} executions={} violations={} wall={:.1}s",
            self.prop,
            self.tier.name(),
            evals,
            states,
            transitions,
            traces,
            total,
            wall
        );
        if exit == 0 && !unrep.is_empty() {
            println!("[{}] MACHINERY: {} violation(s) did not reproduce when their case was executed again (nondeterminism outside the harness's control, or a verdict that depends on earlier calls); no verdict", self.prop, unrep.len());
            return 2;
        }
        if exit == 0 {
            if replay_mode {
                println!("[{}] replay: the recorded case does NOT violate the property on this tree", self.prop);
            } else {
                println!("[{}] OK: property held on everything explored ({} evaluations)", self.prop, evals);
            }
        }
        exit
    }
}

/// Run `n` cases on all threads and collect per-thread results (helper for modules that need a
/// parallel map rather than a judged family).
pub fn par_map<T: Send>(threads: usize, n: usize, f: impl Fn(usize) -> T + Sync) -> Vec<T> {
    let next = AtomicU64::new(0);
    let out: Mutex<Vec<(usize, T)>> = Mutex::new(Vec::with_capacity(n));
    std::thread::scope(|s| {
        for _ in 0..threads.min(n.max(1)) {
            s.spawn(|| loop {
                let i = next.fetch_add(1, Ordering::Relaxed) as usize;
                if i >= n {
                    break;
                }
                let v = f(i);
                out.lock().unwrap().push((i, v));
            });
        }
    });
    let mut v = out.into_inner().unwrap();
    v.sort_by_key(|(i, _)| *i);
    v.into_iter().map(|(_, t)| t).collect()
}

/// The six criteria of a processed filter configuration.  `build()` goes through the crate's own
/// conversion from `DltFilterConfig` (so that anything the crate derives at conversion time is
/// derived) and then sets the processed fields exactly as given (the properties quantify over
/// processed configurations, e.g. a minimum level that no number converts to); the harness never
/// writes a struct literal of `ProcessedDltFilterConfig`, so a field added to it does not stop the
/// harness from building.
pub struct PF {
    pub min_log_level: Option<dlt_core::dlt::LogLevel>,
    pub app_ids: Option<std::collections::HashSet<String>>,
    pub ecu_ids: Option<std::collections::HashSet<String>>,
    pub context_ids: Option<std::collections::HashSet<String>>,
    pub app_id_count: i64,
    pub context_id_count: i64,
}
impl PF {
    pub fn build(self) -> dlt_core::filtering::ProcessedDltFilterConfig {
        let list = |s: &Option<std::collections::HashSet<String>>| s.as_ref().map(|h| h.iter().cloned().collect::<Vec<String>>());
        let mut p: dlt_core::filtering::ProcessedDltFilterConfig = dlt_core::filtering::DltFilterConfig { min_log_level: None, app_ids: list(&self.app_ids), ecu_ids: list(&self.ecu_ids), context_ids: list(&self.context_ids), app_id_count: self.app_id_count, context_id_count: self.context_id_count }.into();
        p.min_log_level = self.min_log_level;
        p.app_ids = self.app_ids;
        p.ecu_ids = self.ecu_ids;
        p.context_ids = self.context_ids;
        p.app_id_count = self.app_id_count;
        p.context_id_count = self.context_id_count;
        p
    }
}
