//! C09 -- filtering drops exactly the messages that fail the configured criteria.
use crate::common::*;
use crate::refmodel::*;
use crate::universe::*;
use dlt_core::filtering::{DltFilterConfig, ProcessedDltFilterConfig};
use dlt_core::parse::{dlt_message, ParsedMessage};
use dlt_core::read::{read_message, DltMessageReader};
use serde_json::json;
use std::collections::BTreeSet;

const HIT: &str = "HIT";
const MISS: &str = "MIS";

/// 0 absent, 1 empty, 2 {hit}, 3 {miss}, 4 {hit, miss}, 5 [hit, hit] (duplicate entries),
/// 6 [hit, over-long, over-long] (entries longer than an id can be, repeated), 7 [over-long]
fn id_set(opt: usize) -> Option<Vec<String>> {
    match opt {
        6 => Some(vec![HIT.into(), "APPLICATION".into(), "APPLICATION".into()]),
        7 => Some(vec!["TOOLONGID".into()]),
        0 => None,
        1 => Some(vec![]),
        2 => Some(vec![HIT.into()]),
        3 => Some(vec![MISS.into()]),
        4 => Some(vec![HIT.into(), MISS.into()]),
        _ => Some(vec![HIT.into(), HIT.into()]),
    }
}
fn distinct_len(v: &Option<Vec<String>>) -> i64 {
    v.as_ref().map(|v| v.iter().collect::<BTreeSet<_>>().len() as i64).unwrap_or(0)
}
/// 0: -1, 1: 0, 2: |set|-1, 3: |set|, 4: |set|+1, 5: i64::MAX
fn count_of(opt: usize, set: &Option<Vec<String>>) -> i64 {
    let n = distinct_len(set);
    match opt {
        0 => -1,
        1 => 0,
        2 => n - 1,
        3 => n,
        4 => n + 1,
        _ => i64::MAX,
    }
}

#[derive(Clone, Debug)]
struct MsgShape {
    /// None = no extended header; Some((mstp, mtin))
    ext: Option<(u8, u8)>,
    app_hit: bool,
    ctx_hit: bool,
    /// 0 absent, 1 hit, 2 other
    ecu: usize,
    verbose: bool,
}
fn build_msg(s: &MsgShape) -> RefMsg {
    let mut flags = 0x10;
    if s.ecu != 0 {
        flags |= 0x04;
    }
    let e = s.ext.map(|(t, i)| ext(t, i, if s.app_hit { HIT } else { "OTH" }, if s.ctx_hit { HIT } else { "OTH" }));
    let p = payload_for(s.verbose && e.is_some(), e.as_ref().map(|e| e.mstp), 0);
    let mut m = msg_with(flags, 1, e, p, None);
    if s.ecu != 0 {
        m.ecu = Some(if s.ecu == 1 { HIT.to_string() } else { "OTH".to_string() });
    }
    m
}

/// the statement, transcribed
fn expect_dropped(cfg: &DltFilterConfig, s: &MsgShape) -> bool {
    let contains = |set: &Option<Vec<String>>, id: &str| set.as_ref().map(|v| v.iter().any(|x| x == id));
    match s.ext {
        Some((mstp, mtin)) => {
            let min = cfg.min_log_level.filter(|l| (1..=6).contains(l));
            if let Some(min) = min {
                if mstp == MSTP_LOG && (1..=6).contains(&mtin) && mtin > min {
                    return true;
                }
            }
            if contains(&cfg.app_ids, if s.app_hit { HIT } else { "OTH" }) == Some(false) {
                return true;
            }
            if contains(&cfg.context_ids, if s.ctx_hit { HIT } else { "OTH" }) == Some(false) {
                return true;
            }
            if s.ecu != 0 && contains(&cfg.ecu_ids, if s.ecu == 1 { HIT } else { "OTH" }) == Some(false) {
                return true;
            }
            false
        }
        None => (cfg.app_ids.is_some() && cfg.app_id_count > distinct_len(&cfg.app_ids)) || (cfg.context_ids.is_some() && cfg.context_id_count > distinct_len(&cfg.context_ids)),
    }
}

fn judge(cfg: &DltFilterConfig, by_ref: bool, s: &MsgShape, loc: &mut Local) {
    let m = build_msg(s);
    let (bytes, _) = encode(&m);
    let mut input = bytes.clone();
    input.extend_from_slice(&[0x35, 0x00]); // something follows
    let processed: ProcessedDltFilterConfig = if by_ref { ProcessedDltFilterConfig::from(cfg) } else { ProcessedDltFilterConfig::from(cfg.clone()) };
    let expect_drop = expect_dropped(cfg, s);
    loc.evals += 1;
    loc.traces += 1;
    loc.transitions += 3;
    let cfg_desc = format!("min_log_level={:?} app_ids={:?} ctx_ids={:?} ecu_ids={:?} app_id_count={} context_id_count={} conversion={}", cfg.min_log_level, cfg.app_ids, cfg.context_ids, cfg.ecu_ids, cfg.app_id_count, cfg.context_id_count, if by_ref { "From<&DltFilterConfig>" } else { "From<DltFilterConfig>" });
    loc.state(mix(fnv64(cfg_desc.as_bytes()), fnv64(&bytes)), expect_drop);
    let details = || json!({"config": cfg_desc, "message_hex": hex(&bytes), "shape": format!("{:?}", s)});
    let plain = catch(|| dlt_message(&input, None, false).map(|(rest, pm)| (rest.len(), pm)));
    let filt = catch(|| dlt_message(&input, Some(&processed), false).map(|(rest, pm)| (rest.len(), pm)));
    let plain_msg = match plain {
        Ok(Ok((2, ParsedMessage::Item(pm)))) => pm,
        // the relation is stated against the unfiltered parse; where that one does not return the
        // (well-formed) message there is nothing to compare with - C01/C02's matter, not judged here
        _ => {
            loc.outcome("unfiltered parse does not return the message (not judged)");
            return;
        }
    };
    let payload_len = m.payload_len as usize;
    match filt {
        Err(p) => loc.violation("filtered parse panics", format!("dlt_message with filter panicked ({}); {}; message {}", p, cfg_desc, hex(&bytes)), details()),
        Ok(Err(e)) => loc.violation("filtered parse fails", format!("dlt_message with filter failed ({:?}) although the unfiltered parse succeeds; {}; message {}", e, cfg_desc, hex(&bytes)), details()),
        Ok(Ok((rest, pm))) => {
            if rest != 2 {
                loc.violation("filter changes the remainder", format!("remainder {} bytes with filter, 2 without; {}; message {}", rest, cfg_desc, hex(&bytes)), details());
                return;
            }
            match pm {
                ParsedMessage::FilteredOut(n) => {
                    if !expect_drop {
                        loc.outcome("wrongly dropped");
                        loc.violation("message dropped although it satisfies the configuration", format!("FilteredOut({}) but the statement keeps this message; {}; message shape {:?} bytes {}", n, cfg_desc, s, hex(&bytes)), details());
                    } else if n != payload_len {
                        loc.violation("filtered-out marker carries wrong payload length", format!("FilteredOut({}) but the payload has {} bytes; {}", n, payload_len, cfg_desc), details());
                    } else {
                        loc.outcome("dropped as stated");
                        loc.sample(|| json!({"config": cfg_desc, "message": hex(&bytes), "result": format!("FilteredOut({})", n)}));
                    }
                }
                ParsedMessage::Item(kept) => {
                    if expect_drop {
                        loc.outcome("wrongly kept");
                        loc.violation("message kept although it fails the configuration", format!("message returned but the statement drops it; {}; message shape {:?} bytes {}", cfg_desc, s, hex(&bytes)), details());
                    } else if !same_message(&kept, &plain_msg) {
                        loc.violation("kept message differs from the unfiltered parse", format!("with filter: {}\n    without: {}", fp(&kept), fp(&plain_msg)), details());
                    } else {
                        loc.outcome("kept as stated");
                    }
                }
                ParsedMessage::Invalid => loc.violation("filtered parse returns Invalid", format!("ParsedMessage::Invalid with filter; {}", cfg_desc), details()),
            }
        }
    }
    // the same through the blocking reader
    let mut reader = DltMessageReader::with_capacity(65_551, 65_551, &bytes[..], false);
    match catch(|| read_message(&mut reader, Some(&processed))) {
        Ok(Ok(Some(ParsedMessage::FilteredOut(n)))) if expect_drop && n == payload_len => {}
        Ok(Ok(Some(ParsedMessage::Item(k)))) if !expect_drop && same_message(&k, &plain_msg) => {}
        other => loc.violation("read_message with filter disagrees", format!("read::read_message(.., Some(filter)) returned {:?}, expected {}; {}", other.map(|r| r.map(|o| o.map(|pm| match pm { ParsedMessage::Item(_) => "Item".to_string(), o => format!("{:?}", o) }))), if expect_drop { "FilteredOut" } else { "Item" }, cfg_desc), details()),
    }
}

fn msg_types() -> Vec<Option<(u8, u8)>> {
    let mut v: Vec<Option<(u8, u8)>> = vec![None];
    for l in 0..16u8 {
        v.push(Some((MSTP_LOG, l)));
    }
    v.push(Some((MSTP_APP_TRACE, 1)));
    v.push(Some((MSTP_NW_TRACE, 2)));
    v.push(Some((MSTP_CONTROL, 1)));
    v.push(Some((5, 4)));
    v
}

pub fn run(ctx: &Ctx) {
    ctx.enable_trace_pass(ctx.tier.pick(20000u64, 200000u64));
    ctx.set_rule("case = (filter configuration, conversion used, message shape); three complete products: (all 257 minimum levels x all message types x id hit/miss), (all id-set shapes x all count relations x ids x ECU presence x extended-header presence), and a reduced full product; oracle = the statement transcribed as a predicate; non-trivial = the statement says the message is dropped");
    let types = msg_types();
    // product 1: levels
    {
        let sp = Space::new(&[257, types.len(), 2, 2, 3, 2, 2]);
        let s2 = sp.clone();
        let types = &types;
        ctx.run_family(Family::new("c09.levels", sp.size(), "min_log_level {None, 0..=255} x {no extended header, log with every level nibble 0..15, app trace, network trace, control, unknown type} x app id hit/miss (set {HIT} present or absent) x header ECU {absent, hit, other} x verbose/non-verbose x both conversions", move |i, loc| {
            let c = s2.coords(i);
            let cfg = DltFilterConfig {
                min_log_level: if c[0] == 0 { None } else { Some((c[0] - 1) as u8) },
                app_ids: if c[3] == 1 { Some(vec![HIT.into()]) } else { None },
                ecu_ids: None,
                context_ids: None,
                app_id_count: 0,
                context_id_count: 0,
            };
            let s = MsgShape { ext: types[c[1]], app_hit: c[2] == 1, ctx_hit: true, ecu: c[4], verbose: c[5] == 1 };
            judge(&cfg, c[6] == 1, &s, loc);
        }));
    }
    // product 2: sets and counts
    {
        let t2: Vec<Option<(u8, u8)>> = vec![None, Some((MSTP_LOG, 3)), Some((MSTP_CONTROL, 2))];
        let sp = Space::new(&[8, 8, 8, 6, 6, 2, 2, 3, t2.len(), 2]);
        let s2 = sp.clone();
        let t2 = &t2;
        ctx.run_family(Family::new("c09.sets_counts", sp.size(), "app / context / ECU id sets each in {absent, empty, {hit}, {miss}, {hit,miss}, [hit,hit], [hit,over-long,over-long], [over-long]} x app and context counts each in {-1, 0, |set|-1, |set|, |set|+1, i64::MAX} x message app id hit/other x context id hit/other x header ECU {absent, hit, other} x {no extended header, log warn, control} x both conversions", move |i, loc| {
            let c = s2.coords(i);
            let app_ids = id_set(c[0]);
            let context_ids = id_set(c[1]);
            let cfg = DltFilterConfig { min_log_level: None, ecu_ids: id_set(c[2]), app_id_count: count_of(c[3], &app_ids), context_id_count: count_of(c[4], &context_ids), app_ids, context_ids };
            let s = MsgShape { ext: t2[c[8]], app_hit: c[5] == 1, ctx_hit: c[6] == 1, ecu: c[7], verbose: false };
            judge(&cfg, c[9] == 1, &s, loc);
        }));
    }
    // product 3: reduced full product
    {
        let levels: Vec<Option<u8>> = vec![None, Some(0), Some(1), Some(3), Some(6), Some(7), Some(255)];
        let sp = Space::new(&[levels.len(), 5, 5, 5, 2, 2, types.len(), 2, 2, 3]);
        let s2 = sp.clone();
        let (types, levels) = (&types, &levels);
        ctx.run_family(Family::new("c09.full_reduced", sp.size(), "min level {None,0,1,3,6,7,255} x app/context/ECU sets {absent, empty, {hit}, {miss}, {hit,miss}} x counts {0, |set|+1} (app, context) x all message types x app hit/other x context hit/other x ECU {absent, hit, other}", move |i, loc| {
            let c = s2.coords(i);
            let app_ids = id_set(c[1]);
            let context_ids = id_set(c[2]);
            let cfg = DltFilterConfig {
                min_log_level: levels[c[0]],
                ecu_ids: id_set(c[3]),
                app_id_count: if c[4] == 0 { 0 } else { distinct_len(&app_ids) + 1 },
                context_id_count: if c[5] == 0 { 0 } else { distinct_len(&context_ids) + 1 },
                app_ids,
                context_ids,
            };
            let s = MsgShape { ext: types[c[6]], app_hit: c[7] == 1, ctx_hit: c[8] == 1, ecu: c[9], verbose: c[6] % 2 == 0 };
            judge(&cfg, i % 2 == 1, &s, loc);
        }));
    }
    // product 3b: storage-header mode, blank-but-present header ECU id
    {
        // header ECU: 0 absent, 1 present but blank (four NULs), 2 HIT, 3 OTH; storage ECU: HIT / OTH
        // ECU id set: absent, {HIT}, {OTH}, {""}, {HIT, ""}
        let ecu_sets: Vec<Option<Vec<String>>> = vec![None, Some(vec![HIT.into()]), Some(vec!["OTH".into()]), Some(vec!["".into()]), Some(vec![HIT.into(), "".into()])];
        let t3: Vec<Option<(u8, u8)>> = vec![None, Some((MSTP_LOG, 2)), Some((MSTP_CONTROL, 1))];
        let sp = Space::new(&[4, 2, ecu_sets.len(), t3.len(), 3, 2]);
        let s2 = sp.clone();
        let (ecu_sets, t3) = (&ecu_sets, &t3);
        ctx.run_family(Family::new("c09.storage_blank_ecu", sp.size(), "messages WITH storage header (storage ECU id HIT / OTH) x header ECU id {absent, present but blank, HIT, OTH} x ECU id set {absent, {HIT}, {OTH}, {''}, {HIT,''}} x {no extended header, log, control} x app id set {absent, {HIT}, {miss}} x both conversions: dropped exactly as the statement says (the storage header's ECU id plays no role), kept messages identical to the unfiltered parse", move |i, loc| {
            let c = s2.coords(i);
            let header_ecu: Option<&str> = [None, Some(""), Some(HIT), Some("OTH")][c[0]];
            let st_ecu = if c[1] == 0 { HIT } else { "OTH" };
            let cfg = DltFilterConfig { min_log_level: None, app_ids: [None, Some(vec![HIT.to_string()]), Some(vec![MISS.to_string()])][c[4]].clone(), context_ids: None, ecu_ids: ecu_sets[c[2]].clone(), app_id_count: 0, context_id_count: 0 };
            let processed: ProcessedDltFilterConfig = if c[5] == 1 { ProcessedDltFilterConfig::from(&cfg) } else { ProcessedDltFilterConfig::from(cfg.clone()) };
            let e = t3[c[3]].map(|(t, s)| ext(t, s, HIT, HIT));
            let p = payload_for(false, e.as_ref().map(|e| e.mstp), 0);
            let mut m = msg_with(if header_ecu.is_some() { 0x04 } else { 0 } | 0x10, 1, e, p, Some(storage(5, 6, st_ecu)));
            m.ecu = header_ecu.map(|s| s.to_string());
            let bytes = encode(&m).0;
            let in_set = |set: &Option<Vec<String>>, id: &str| set.as_ref().map(|v| v.iter().any(|x| x == id));
            let expect_drop = match t3[c[3]] {
                Some(_) => in_set(&cfg.app_ids, HIT) == Some(false) || header_ecu.map(|h| in_set(&cfg.ecu_ids, h) == Some(false)).unwrap_or(false),
                None => cfg.app_ids.is_some() && cfg.app_id_count > distinct_len(&cfg.app_ids),
            };
            loc.evals += 1;
            loc.traces += 1;
            loc.transitions += 2;
            loc.state(i, expect_drop);
            let desc = format!("storage ECU {:?}, header ECU {:?}, ecu_ids {:?}, app_ids {:?}, type {:?}; message {}", st_ecu, header_ecu, cfg.ecu_ids, cfg.app_ids, t3[c[3]], hex(&bytes));
            let plain = match catch(|| dlt_message(&bytes, None, true)) {
                Ok(Ok((_, ParsedMessage::Item(pm)))) => pm,
                _ => {
                    loc.outcome("unfiltered parse does not return the message (not judged)");
                    return;
                }
            };
            match catch(|| dlt_message(&bytes, Some(&processed), true).map(|(rest, pm)| (rest.len(), pm))) {
                Ok(Ok((0, ParsedMessage::FilteredOut(n)))) if expect_drop && n == m.payload_len as usize => loc.outcome("dropped as stated"),
                Ok(Ok((0, ParsedMessage::Item(k)))) if !expect_drop && same_message(&k, &plain) => loc.outcome("kept as stated"),
                other => {
                    loc.outcome("wrong under storage header");
                    loc.violation("filter result wrong for a stored message", format!("{}: expected {}, got {:?}", desc, if expect_drop { "FilteredOut".to_string() } else { format!("the unfiltered message {}", fp(&plain)) }, other.map(|r| r.map(|(n, pm)| (n, match pm { ParsedMessage::Item(k) => fp(&k), o => format!("{:?}", o) })))), json!({"case": desc}));
                }
            }
        }));
    }
    // product 3c: whatever a filter decides, a kept message is the unfiltered message and the
    // remainder is the unfiltered remainder - over every seed message x storage-header variants x
    // a broad list of configurations (the drop decision itself is judged by the products above)
    {
        let mut seeds: Vec<RefMsg> = seed_messages(Tier::Thorough).into_iter().chain((0..embedded_pattern_positions()).map(|p| embedded_pattern_message(p, p % 2 == 1, None, b"DLT\x01", "DLT\u{1}"))).collect();
        // maximal and near-maximal messages of every payload kind (16-bit arithmetic on lengths)
        for f in universe(Tier::Quick) {
            if f.name == "u.boundary" {
                for i in (0..f.size).step_by(4) {
                    let mut m = (f.gen)(i);
                    m.storage = None;
                    seeds.push(m);
                }
            }
        }
        for l in [65_535usize, 65_534, 65_521, 65_520, 65_519, 65_500, 40_000] {
            seeds.push(len_sweep_message(4, l - 8, false));
            seeds.push(len_sweep_message(0, l - 14 - 7, true));
        }
        let set = |v: &[&str]| -> Option<std::collections::HashSet<String>> { Some(v.iter().map(|s| s.to_string()).collect()) };
        let mut cfgs: Vec<(String, ProcessedDltFilterConfig)> = vec![];
        let base = || crate::common::PF { min_log_level: None, app_ids: None, ecu_ids: None, context_ids: None, app_id_count: 0, context_id_count: 0 };
        cfgs.push(("keep all".into(), base().build()));
        for (i, l) in [dlt_core::dlt::LogLevel::Fatal, dlt_core::dlt::LogLevel::Error, dlt_core::dlt::LogLevel::Warn, dlt_core::dlt::LogLevel::Info, dlt_core::dlt::LogLevel::Debug, dlt_core::dlt::LogLevel::Verbose].into_iter().enumerate() {
            cfgs.push((format!("min level {}", i + 1), crate::common::PF { min_log_level: Some(l), ..base() }.build()));
        }
        for e in [vec!["ECU1"], vec!["STOR"], vec![""], vec!["ECU1", "STOR", ""], vec!["NOPE"], vec![]] {
            cfgs.push((format!("ecu ids {:?}", e), crate::common::PF { ecu_ids: set(&e), ..base() }.build()));
        }
        for a in [vec!["APP"], vec!["APP", "AP", "A", "é", "UN", "NW", ""], vec!["NOPE"]] {
            cfgs.push((format!("app ids {:?}", a), crate::common::PF { app_ids: set(&a), app_id_count: 1, ..base() }.build()));
            cfgs.push((format!("context ids {:?} count 9", a), crate::common::PF { context_ids: set(&a), context_id_count: 9, ..base() }.build()));
        }
        cfgs.push(("everything at once".into(), crate::common::PF { min_log_level: Some(dlt_core::dlt::LogLevel::Verbose), app_ids: set(&["APP", "AP", "A", "é", "UN", "NW", ""]), ecu_ids: set(&["ECU1", "STOR", ""]), context_ids: set(&["CTX", "", "C", "€", "KN", "TR"]), app_id_count: 0, context_id_count: 0 }.build()));
        // storage variants: none, id equal to the header's, another id, blank id, non-ASCII id
        let storages: Vec<Option<&str>> = vec![None, Some("ECU1"), Some("STOR"), Some(""), Some("é1")];
        let sp = Space::new(&[seeds.len(), storages.len(), cfgs.len(), 2]);
        let s2 = sp.clone();
        let (seeds, cfgs, storages) = (&seeds, &cfgs, &storages);
        ctx.run_family(Family::new("c09.kept_identical", sp.size(), format!("{} seed messages (every argument kind, payload kind, header shape; messages carrying the storage pattern) x storage header {{none, id = header id, other id, blank id, non-ASCII id}} x {} filter configurations (every minimum level, ECU / application / context sets of several shapes, all criteria at once) x header ECU id {{as is, blank}}: a kept message is bit-identical to the unfiltered parse, a marker carries the payload length, the remainder is the same", seeds.len(), cfgs.len()), move |i, loc| {
            let c = s2.coords(i);
            let mut m = seeds[c[0]].clone();
            m.storage = storages[c[1]].map(|id| storage(0x0102_0304, 0x0005_0607, id));
            if c[3] == 1 {
                if m.ecu.is_none() {
                    return;
                }
                m.ecu = Some(String::new());
            }
            let m = normalize(m);
            let st = m.storage.is_some();
            let mut bytes = encode(&m).0;
            bytes.extend_from_slice(b"\x35rest");
            let (name, f) = &cfgs[c[2]];
            loc.evals += 1;
            loc.traces += 1;
            loc.transitions += 2;
            loc.state(i, true);
            let plain = match catch(|| dlt_message(&bytes, None, st).map(|(rest, pm)| (rest.len(), pm))) {
                Ok(Ok((5, ParsedMessage::Item(pm)))) => pm,
                _ => {
                    loc.outcome("unfiltered parse does not return the message (not judged)");
                    return;
                }
            };
            let desc = || format!("filter [{}], storage header {:?}, message {}", name, storages[c[1]], hex_short(&bytes));
            match catch(|| dlt_message(&bytes, Some(f), st).map(|(rest, pm)| (rest.len(), pm))) {
                Ok(Ok((5, ParsedMessage::Item(k)))) if same_message(&k, &plain) => loc.outcome("kept, identical"),
                Ok(Ok((5, ParsedMessage::FilteredOut(n)))) if n == m.payload_len as usize => loc.outcome("dropped, marker and remainder right"),
                other => {
                    loc.outcome("filter changes more than the decision");
                    loc.violation("a filter changes the message or the remainder", format!("{}: unfiltered {} ; with filter {:?}", desc(), fp(&plain), other.map(|r| r.map(|(n, pm)| (n, match pm { ParsedMessage::Item(k) => fp(&k), o => format!("{:?}", o) })))), json!({"case": desc()}));
                }
            }
        }));
    }
    // product 4: near-miss ids -- the set holds exactly one id, the message carries a similar one
    {
        let near: Vec<&'static str> = vec!["AB", "AB ", "AB  ", " AB", "ab", "Ab", "A", "B", "ABC", "ABCD", "abcd", "", "AB\t", "AB.", "0AB", "ÄB", "AB_", "A B", "BA", "AB0"];
        let n = near.len();
        let sp = Space::new(&[n, n, 3, 2, 2]);
        let s2 = sp.clone();
        let near = &near;
        ctx.run_family(Family::new("c09.near_miss_ids", sp.size(), format!("id set = one id x, message id = y for all ordered pairs over {} similar ids {:?} (space / NUL / case / prefix / suffix variants) in the application, context or ECU position x log / control message x both conversions: dropped exactly when x != y", n, near), move |i, loc| {
            let c = s2.coords(i);
            let (x, y, pos) = (near[c[0]], near[c[1]], c[2]);
            let set = Some(vec![x.to_string()]);
            let cfg = DltFilterConfig { min_log_level: None, app_ids: if pos == 0 { set.clone() } else { None }, context_ids: if pos == 1 { set.clone() } else { None }, ecu_ids: if pos == 2 { set.clone() } else { None }, app_id_count: 0, context_id_count: 0 };
            let processed: ProcessedDltFilterConfig = if c[4] == 1 { ProcessedDltFilterConfig::from(&cfg) } else { ProcessedDltFilterConfig::from(cfg.clone()) };
            let e = if c[3] == 0 { ext(MSTP_LOG, 3, if pos == 0 { y } else { "APP" }, if pos == 1 { y } else { "CTX" }) } else { ext(MSTP_CONTROL, 1, if pos == 0 { y } else { "APP" }, if pos == 1 { y } else { "CTX" }) };
            let p = payload_for(false, Some(e.mstp), 0);
            let mut m = msg_with(0x04, 1, Some(e), p, None);
            m.ecu = Some(if pos == 2 { y.to_string() } else { "ECU1".to_string() });
            let bytes = encode(&m).0;
            loc.evals += 1;
            loc.traces += 1;
            loc.transitions += 1;
            loc.state(i, x != y);
            let desc = format!("{} id set {{{:?}}}, message id {:?}, message {}", ["application", "context", "ECU"][pos], x, y, hex(&bytes));
            match catch(|| dlt_message(&bytes, Some(&processed), false).map(|(rest, pm)| (rest.len(), pm))) {
                Ok(Ok((0, ParsedMessage::FilteredOut(k)))) if x != y && k == m.payload_len as usize => loc.outcome("dropped as stated"),
                Ok(Ok((0, ParsedMessage::Item(_)))) if x == y => loc.outcome("kept as stated"),
                other => {
                    loc.outcome("near-miss handled wrongly");
                    loc.violation("id comparison is not exact", format!("{}: expected {}, got {:?}", desc, if x != y { "FilteredOut" } else { "the message" }, other.map(|r| r.map(|(n, pm)| (n, format!("{:?}", pm).chars().take(60).collect::<String>())))), json!({"case": desc}));
                }
            }
        }));
    }
    // the filter through both readers under fragmentation, against parsing each piece with the same filter
    crate::bulk::run_bulk_selected(ctx, "c09.blocking", false, &["long_streams"]);
    crate::bulk::run_bulk_selected(ctx, "c09.async", true, &["long_streams"]);
}
