//! C11 -- the FIBEX model returned is exactly the model written in the files.
//! Abstract models are rendered to XML files on tmpfs under layout options and loaded with the
//! real gather_fibex_data; the result is compared (as maps) with an independently assembled
//! expectation; extract_metadata is checked for every frame id with and without extended header.
use crate::common::*;
use crate::fibexgen::*;
use dlt_core::dlt::{ExtendedHeader, LogLevel, MessageType};
use dlt_core::fibex::{extract_metadata, gather_fibex_data, FibexConfig, FibexMetadata};
use serde_json::json;
use std::cell::RefCell;

thread_local! {
    static DIR: RefCell<Option<String>> = const { RefCell::new(None) };
}
pub fn scratch_root() -> String {
    format!("/dev/shm/dltmc-{}", std::process::id())
}
pub fn thread_dir() -> String {
    DIR.with(|d| {
        let mut d = d.borrow_mut();
        if d.is_none() {
            let p = format!("{}/t{:?}", scratch_root(), std::thread::current().id()).replace(['(', ')'], "");
            std::fs::create_dir_all(&p).expect("create scratch dir on /dev/shm");
            *d = Some(p);
        }
        d.clone().unwrap()
    })
}
pub fn cleanup_scratch() {
    let _ = std::fs::remove_dir_all(scratch_root());
}

fn ext_header(app: &str, ctx: &str) -> ExtendedHeader {
    ExtendedHeader { verbose: false, argument_count: 0, message_type: MessageType::Log(LogLevel::Info), application_id: app.to_string(), context_id: ctx.to_string() }
}

fn describe_model(m: &Option<FibexMetadata>) -> String {
    match m {
        None => "None (loading refused)".to_string(),
        Some(m) => {
            let mut frames: Vec<String> = m.frame_map.iter().map(|(k, v)| format!("{} => {:?}", k, v)).collect();
            frames.sort();
            let mut keyed: Vec<String> = m.frame_map_with_key.iter().map(|(k, v)| format!("({},{},{}) => {}", k.context_id, k.app_id, k.frame_id, v.short_name)).collect();
            keyed.sort();
            format!("frames by id: [{}]; frames by (ctx,app,id): [{}]", frames.join("; "), keyed.join("; ")).chars().take(1500).collect()
        }
    }
}

pub fn judge(files: &[Vec<Elem>], layouts: &[Layout], what: &str, loc: &mut Local) {
    let names: Vec<usize> = (0..files.len()).collect();
    judge_named(files, layouts, &names, what, loc)
}

/// `names[i]` selects the file name of the i-th listed file, so that the listing order is
/// independent of the lexicographic order of the paths.
pub fn judge_named(files: &[Vec<Elem>], layouts: &[Layout], names: &[usize], what: &str, loc: &mut Local) {
    const FILE_NAMES: [&str; 4] = ["a_base", "m_vehicle", "z_last", "B_upper"];
    let dir = thread_dir();
    let mut paths = vec![];
    let mut docs = vec![];
    for (i, f) in files.iter().enumerate() {
        let doc = render_doc(f, &layouts[i % layouts.len()]);
        let p = format!("{}/{}.xml", dir, FILE_NAMES[names[i] % FILE_NAMES.len()]);
        std::fs::write(&p, &doc).expect("write fibex file");
        paths.push(p);
        docs.push(doc);
    }
    loc.evals += 1;
    loc.transitions += 1;
    loc.traces += 1;
    let expect = expected_model(files);
    let h = docs.iter().fold(0u64, |a, d| mix(a, fnv64(d.as_bytes())));
    let h = names.iter().fold(h, |a, n| mix(a, *n as u64 + 1));
    loc.state(h, expect.as_ref().map(|m| !m.frame_map.is_empty()).unwrap_or(true));
    let details = || json!({"what": what, "files": docs, "layouts": format!("{:?}", layouts)});
    let got = match catch(|| gather_fibex_data(FibexConfig { fibex_file_paths: paths.clone() })) {
        Ok(g) => g,
        Err(p) => {
            loc.violation("gather_fibex_data panics", format!("gather_fibex_data panicked ({}) on {}", p, what), details());
            return;
        }
    };
    if got != expect {
        loc.outcome("model differs");
        let key = match (&got, &expect) {
            (None, Some(_)) => "valid model refused",
            (Some(_), None) => "dangling PDU reference accepted",
            _ => "model differs from the files",
        };
        loc.violation(key, format!("{}:\n    loaded:   {}\n    expected: {}\n    first file:\n{}", what, describe_model(&got), describe_model(&expect), docs[0].chars().take(1800).collect::<String>()), details());
        return;
    }
    loc.outcome(if got.is_some() { "model equal" } else { "refused as expected" });
    // extract_metadata
    if let Some(m) = &got {
        for (fid, fm) in &m.frame_map {
            let num: Option<u32> = fid.strip_prefix("ID_").and_then(|n| n.parse().ok());
            let num = match num {
                Some(n) if format!("ID_{}", n) == *fid => n,
                _ => continue,
            };
            loc.transitions += 3;
            // without extended header: by frame id alone
            if extract_metadata(m, num, None) != Some(fm) {
                loc.violation("extract_metadata by id wrong", format!("extract_metadata(model, {}, None) does not return frame {} ({})", num, fid, what), details());
                return;
            }
            // with extended header: via (ctx, app, id); a header with other ids finds nothing
            for (app, ctx) in [("APP1", "CTX1"), ("APP2", "CTX1"), ("APP1", "CTX2"), ("NOPE", "NOPE")] {
                let eh = ext_header(app, ctx);
                let want = expect.as_ref().unwrap().frame_map_with_key.get(&dlt_core::fibex::FrameMetadataIdentification { context_id: ctx.to_string(), app_id: app.to_string(), frame_id: fid.clone() });
                if extract_metadata(m, num, Some(&eh)) != want {
                    loc.outcome("extract_metadata wrong");
                    loc.violation("extract_metadata with extended header wrong", format!("extract_metadata(model, {}, Some(app {}, ctx {})) = {:?}, expected {:?} ({})", num, app, ctx, extract_metadata(m, num, Some(&eh)).map(|f| &f.short_name), want.map(|f| &f.short_name), what), details());
                    return;
                }
            }
        }
        if extract_metadata(m, 999_999, None).is_some() {
            loc.violation("extract_metadata finds a frame that does not exist", format!("extract_metadata(model, 999999, None) is Some ({})", what), details());
        }
    }
    loc.sample(|| json!({"what": what, "file0": docs[0].chars().take(600).collect::<String>(), "loaded": describe_model(&got).chars().take(400).collect::<String>()}));
}

/// signal vocabulary: references and the definitions they need
fn vocabulary() -> (Vec<String>, Vec<Elem>) {
    let mut refs: Vec<String> = STANDARD_NAMES.iter().map(|s| s.to_string()).collect();
    let mut defs = vec![];
    for b in BASE_TYPES {
        refs.push(format!("SIG_{}", b));
        defs.push(Elem::Coding(Coding { id: format!("COD_{}", b), base_type: b.to_string() }));
        defs.push(Elem::Signal(Signal { id: format!("SIG_{}", b), coding_ref: format!("COD_{}", b) }));
    }
    refs.push("SIG_UNKNOWNBASE".into());
    defs.push(Elem::Coding(Coding { id: "COD_BYTEFIELD".into(), base_type: "A_BYTEFIELD".into() }));
    defs.push(Elem::Signal(Signal { id: "SIG_UNKNOWNBASE".into(), coding_ref: "COD_BYTEFIELD".into() }));
    refs.push("SIG_DANGLING".into());
    defs.push(Elem::Signal(Signal { id: "SIG_DANGLING".into(), coding_ref: "COD_MISSING".into() }));
    refs.push("NO_SUCH_SIGNAL".into());
    (refs, defs)
}

fn pdu_variants() -> Vec<Pdu> {
    vec![
        pdu("P1", Desc::Text("first: ".into()), &[]),
        pdu("P1", Desc::Absent, &[("S_UINT8", 0)]), // duplicate id of the first
        pdu("P2", Desc::Absent, &[("S_UINT16", 0)]),
        pdu("P3", Desc::Empty, &[("S_SINT32", 1), ("S_BOOL", 0)]),
        pdu("P4", Desc::EmptyTag, &[("S_FLOA64", 0), ("NO_SUCH_SIGNAL", 1), ("S_RAWD", 2)]),
        pdu("P5", Desc::Text("a & b <c>".into()), &[("S_STRG_UTF8", 5), ("S_STRG_ASCII", 3)]),
        pdu("P6", Desc::Text("é€".into()), &[]),
        pdu("P2", Desc::Text("dup of P2".into()), &[]),
    ]
}
fn frame_variants() -> Vec<Frame> {
    vec![
        frame("ID_1", "one", &[("P1", 0)], Some(manuf(Some("APP1"), Some("CTX1"), Some("DLT_TYPE_LOG"), Some("DLT_LOG_WARN")))),
        frame("ID_1", "one again", &[("P2", 0)], Some(manuf(Some("APP2"), Some("CTX1"), None, None))), // same id, other key
        frame("ID_2", "two", &[("P2", 1), ("P1", 0)], None),
        frame("ID_3", "three", &[], Some(manuf(Some("APP1"), None, Some("T"), None))),
        frame("ID_4", "four & more", &[("P3", 2), ("P1", 1), ("P2", 0)], Some(manuf(Some("APP1"), Some("CTX2"), None, Some("I")))),
        frame("ID_1", "third one", &[], Some(manuf(Some("APP1"), Some("CTX1"), None, None))), // same id, same key as the first
        frame("FRAME_X", "not numeric", &[("P1", 0)], Some(manuf(Some("APP1"), Some("CTX1"), None, None))),
        frame("ID_05", "leading zero id", &[("P2", 0)], None),
    ]
}

pub fn run(ctx: &Ctx) {
    ctx.enable_trace_pass(ctx.tier.pick(5000u64, 50000u64));
    ctx.set_rule("case = (abstract FIBEX model split into files, layout); families are complete products per dimension group around baselines (the full cross product of all groups is not attempted); every case is loaded with the real gather_fibex_data from files on tmpfs and compared as maps with an independently assembled expectation; extract_metadata is checked for every numeric frame id without and with 4 extended headers; non-trivial = the expected model has at least one frame or loading must be refused");
    ctx.assume("grammar of the generated documents = that of the repository's sample files: one SHORT-NAME and BYTE-LENGTH per PDU/FRAME, instance elements holding only SEQUENCE-NUMBER and the reference, CODING-REF as empty element; no ties in sequence numbers, no duplicate signal/coding ids, no empty SHORT-NAME");
    std::fs::create_dir_all(scratch_root()).ok();
    let dl = Layout::default();
    // G1: signal vocabulary, all ordered pairs
    {
        let (refs, defs) = vocabulary();
        let n = refs.len();
        let sp = Space::new(&[n, n, 2, 2, 4]);
        let s2 = sp.clone();
        let (refs, defs) = (&refs, &defs);
        ctx.run_family(Family::new("c11.vocabulary_pairs", sp.size(), format!("one PDU with two signal instances: all ordered pairs over the {}-entry reference vocabulary (16 standard names incl. unsupported S_FLOA16 and the S_RAW alias; custom signals through codings with each of the 16 base types; unknown base type; dangling coding ref; unknown signal) x sequence numbers (0,1)/(1,0) x definitions before/after the PDU x codings {{in a CODINGS section of ELEMENTS, in PROCESSING-INFORMATION after ELEMENTS, before ELEMENTS, after ELEMENTS and a further section}}", n), move |i, loc| {
            let c = s2.coords(i);
            let (a, b) = if c[2] == 0 { (0, 1) } else { (1, 0) };
            let p = pdu("P1", Desc::Text("d".into()), &[(&refs[c[0]], a), (&refs[c[1]], b)]);
            let f = frame("ID_1", "f", &[("P1", 0)], None);
            let mut elems: Vec<Elem> = vec![];
            if c[3] == 0 {
                elems.extend(defs.iter().cloned());
            }
            elems.push(Elem::Pdu(p));
            elems.push(Elem::Frame(f));
            if c[3] == 1 {
                elems.extend(defs.iter().cloned());
            }
            judge(&[elems], &[Layout { codings_place: c[4], ..Layout::default() }], &format!("PDU with signal refs {} (seq {}) and {} (seq {}), codings placement {}", refs[c[0]], a, refs[c[1]], b, c[4]), loc);
        }));
    }
    // G2: PDU layout: 0..3 signal instances x all permutations x DESC variants x all 120 child orders x instance-internal order x ref style
    {
        let descs = [Desc::Absent, Desc::Empty, Desc::EmptyTag, Desc::Text("desc: ".into())];
        let sigs = ["S_UINT8", "S_SINT16", "S_FLOA32"];
        // (k instances, permutation index): k=0:1, k=1:1, k=2:2, k=3:6 => 10 shapes
        let shapes: Vec<(usize, usize)> = vec![(0, 0), (1, 0), (2, 0), (2, 1), (3, 0), (3, 1), (3, 2), (3, 3), (3, 4), (3, 5)];
        let sp = Space::new(&[shapes.len(), descs.len(), 120, 2, 2, 2]);
        let s2 = sp.clone();
        let (descs, shapes) = (&descs, &shapes);
        ctx.run_family(Family::new("c11.pdu_layout", sp.size(), "a PDU with 0..3 signal instances in ALL permutations of document order vs sequence number x DESC {absent, empty element, empty tag, text} x all 120 orders of the PDU children x {sequence number first, reference first} x {empty-element refs, start/end refs} x {plain, with noise elements (ECU with its own manufacturer extension, comments, unknown elements)}", move |i, loc| {
            let c = s2.coords(i);
            let (k, pi) = shapes[c[0]];
            let perm = permutation(k, pi);
            let refs: Vec<(&str, usize)> = (0..k).map(|j| (sigs[j], perm[j] * 3)).collect();
            let p = pdu("P1", descs[c[1]].clone(), &refs);
            let po = permutation(5, c[2]);
            let l = Layout { pdu_order: [po[0], po[1], po[2], po[3], po[4]], ref_first: c[3] == 1, refs_open_close: c[4] == 1, noise: c[5] == 1, ..Layout::default() };
            let elems = vec![Elem::Pdu(p), Elem::Pdu(pdu("P2", Desc::Absent, &[("S_BOOL", 0)])), Elem::Frame(frame("ID_7", "frm", &[("P1", 1), ("P2", 0)], None))];
            judge(&[elems], &[l], &format!("PDU with {} signal instances, sequence permutation {:?}, child order {:?}", k, perm, po), loc);
        }));
    }
    // G3: FRAME layout
    {
        let shapes: Vec<(usize, usize)> = vec![(0, 0), (1, 0), (2, 0), (2, 1), (3, 0), (3, 1), (3, 2), (3, 3), (3, 4), (3, 5)];
        let sp = Space::new(&[shapes.len(), 17, 120, 2, 2]);
        let s2 = sp.clone();
        let shapes = &shapes;
        ctx.run_family(Family::new("c11.frame_layout", sp.size(), "a FRAME with 0..3 PDU instances in ALL permutations of document order vs sequence number x manufacturer extension {absent, every subset of application id / context id / message type / message info} x all 120 orders of the FRAME children x instance-internal order x ref style", move |i, loc| {
            let c = s2.coords(i);
            let (k, pi) = shapes[c[0]];
            let perm = permutation(k, pi);
            let names = ["P1", "P2", "P3"];
            let refs: Vec<(&str, usize)> = (0..k).map(|j| (names[j], perm[j] + 10)).collect();
            let m = if c[1] == 0 { None } else { let b = c[1] - 1; Some(manuf(if b & 1 != 0 { Some("APP1") } else { None }, if b & 2 != 0 { Some("CTX1") } else { None }, if b & 4 != 0 { Some("DLT_TYPE_LOG") } else { None }, if b & 8 != 0 { Some("DLT_LOG_INFO") } else { None })) };
            let fo = permutation(5, c[2]);
            let l = Layout { frame_order: [fo[0], fo[1], fo[2], fo[3], fo[4]], ref_first: c[3] == 1, refs_open_close: c[4] == 1, ..Layout::default() };
            let elems = vec![
                Elem::Pdu(pdu("P1", Desc::Text("one".into()), &[("S_UINT8", 0)])),
                Elem::Pdu(pdu("P2", Desc::Absent, &[("S_UINT16", 0)])),
                Elem::Pdu(pdu("P3", Desc::Text("three".into()), &[])),
                Elem::Frame(frame("ID_1", "the frame", &refs, m)),
                Elem::Frame(frame("ID_2", "other", &[("P3", 0)], Some(manuf(Some("APP2"), Some("CTX1"), None, None)))),
            ];
            judge(&[elems], &[l], &format!("FRAME with {} PDU instances, sequence permutation {:?}, child order {:?}, manufacturer extension variant {}", k, perm, fo, c[1]), loc);
        }));
        // manufacturer extension children: all subsets x all 24 orders
        let sp = Space::new(&[16, 24, 2]);
        let s2 = sp.clone();
        ctx.run_family(Family::new("c11.manufacturer_extension", sp.size(), "every subset of the four manufacturer-extension fields x all 24 orders of them x {plain, noise}", move |i, loc| {
            let c = s2.coords(i);
            let b = c[0];
            let m = manuf(if b & 1 != 0 { Some("APP1") } else { None }, if b & 2 != 0 { Some("CTX1") } else { None }, if b & 4 != 0 { Some("DLT_TYPE_LOG") } else { None }, if b & 8 != 0 { Some("DLT_LOG_INFO") } else { None });
            let mo = permutation(4, c[1]);
            let l = Layout { manuf_order: [mo[0], mo[1], mo[2], mo[3]], noise: c[2] == 1, ..Layout::default() };
            let elems = vec![Elem::Pdu(pdu("P1", Desc::Absent, &[])), Elem::Frame(frame("ID_1", "x", &[("P1", 0)], Some(m))), Elem::Frame(frame("ID_2", "y", &[], Some(manuf(Some("APP1"), Some("CTX1"), None, None))))];
            judge(&[elems], &[l], &format!("manufacturer extension subset {:04b} order {:?}", b, mo), loc);
        }));
    }
    // G4: all ordered pairs / triples of PDU variants and of frame variants (reader state leaking
    //     from one element into the next; duplicate ids: first definition wins)
    {
        let pv = pdu_variants();
        let fv = frame_variants();
        let (np, nf) = (pv.len(), fv.len());
        let sp = Space::new(&[np, np, np + 1, nf, nf, nf + 1, 2]);
        let s2 = sp.clone();
        let (pv, fv) = (&pv, &fv);
        ctx.run_family(Family::new("c11.element_sequences", sp.size(), format!("all ordered pairs and triples over {} PDU variants (incl. duplicate ids, DESC variants, unknown signals, entities, UTF-8) x all ordered pairs and triples over {} FRAME variants (duplicate ids with same/different (ctx,app) key, non-numeric and zero-padded ids) x {{PDUs first, FRAMEs first}}; a missing PDU makes loading fail", np, nf), move |i, loc| {
            let c = s2.coords(i);
            let mut pdus = vec![Elem::Pdu(pv[c[0]].clone()), Elem::Pdu(pv[c[1]].clone())];
            if c[2] < np {
                pdus.push(Elem::Pdu(pv[c[2]].clone()));
            }
            let mut frames = vec![Elem::Frame(fv[c[3]].clone()), Elem::Frame(fv[c[4]].clone())];
            if c[5] < nf {
                frames.push(Elem::Frame(fv[c[5]].clone()));
            }
            let elems: Vec<Elem> = if c[6] == 0 { pdus.into_iter().chain(frames).collect() } else { frames.into_iter().chain(pdus).collect() };
            judge(&[elems], &[Layout::default()], &format!("PDU variants {:?}, FRAME variants {:?}", (c[0], c[1], c[2]), (c[3], c[4], c[5])), loc);
        }));
    }
    // G5: section orders and partitions into files
    {
        let base: Vec<Elem> = vec![
            Elem::Coding(Coding { id: "COD_A".into(), base_type: "A_UINT16".into() }),
            Elem::Signal(Signal { id: "SIG_A".into(), coding_ref: "COD_A".into() }),
            Elem::Pdu(pdu("P1", Desc::Text("p1".into()), &[("SIG_A", 1), ("S_UINT8", 0)])),
            Elem::Pdu(pdu("P2", Desc::Absent, &[("S_SINT32", 0)])),
            Elem::Pdu(pdu("P1", Desc::Text("p1 duplicate".into()), &[("S_BOOL", 0)])),
            Elem::Frame(frame("ID_1", "f1", &[("P2", 1), ("P1", 0)], Some(manuf(Some("APP1"), Some("CTX1"), Some("T"), Some("I"))))),
            Elem::Frame(frame("ID_2", "f2", &[("P1", 0)], None)),
            Elem::Frame(frame("ID_1", "f1 duplicate", &[("P2", 0)], Some(manuf(Some("APP1"), Some("CTX1"), None, None)))),
        ];
        let n = base.len();
        // every assignment of the elements to 3 files x two document orders (as listed / reversed)
        let total = 3u64.pow(n as u32) * 2 * 6;
        let base = &base;
        ctx.run_family(Family::new("c11.files", total, format!("a model of {} top-level elements (coding, custom signal, 3 PDUs incl. a duplicate id, 3 FRAMEs incl. a duplicate id): ALL 3^{} assignments of the elements to three files (empty files included), loaded in file order, x {{document order as listed, reversed}} x all 6 assignments of three file names to the listing positions (listing order independent of path order)", n, n), move |i, loc| {
            let names = permutation(3, (i % 6) as usize);
            let i = i / 6;
            let rev = i % 2 == 1;
            let mut j = i / 2;
            let mut files: Vec<Vec<Elem>> = vec![vec![], vec![], vec![]];
            let order: Vec<usize> = if rev { (0..n).rev().collect() } else { (0..n).collect() };
            let mut assign = vec![0usize; n];
            for a in assign.iter_mut() {
                *a = (j % 3) as usize;
                j /= 3;
            }
            for k in order {
                files[assign[k]].push(base[k].clone());
            }
            judge_named(&files, &[Layout::default(), Layout { indent: false, ..Layout::default() }, Layout { noise: true, ..Layout::default() }], &names, &format!("file assignment {:?}{}, file names by listing position {:?}", assign, if rev { ", reversed document order" } else { "" }, names), loc);
        }));
        // all 24 orders of the four sections in one file, x layouts
        let sp = Space::new(&[24, 2, 2, 2]);
        let s2 = sp.clone();
        ctx.run_family(Family::new("c11.section_orders", sp.size(), "the same model in one file under all 24 orders of the four sections (CODINGS, SIGNALS, PDUS, FRAMES) x indentation on/off x noise on/off x ref style", move |i, loc| {
            let c = s2.coords(i);
            let so = permutation(4, c[0]);
            let mut elems: Vec<Elem> = vec![];
            for s in so.iter() {
                for e in base.iter() {
                    let k = match e {
                        Elem::Coding(_) => 0,
                        Elem::Signal(_) => 1,
                        Elem::Pdu(_) => 2,
                        Elem::Frame(_) => 3,
                    };
                    if k == *s {
                        elems.push(e.clone());
                    }
                }
            }
            let l = Layout { indent: c[1] == 0, noise: c[2] == 1, refs_open_close: c[3] == 1, ..Layout::default() };
            judge(&[elems], &[l], &format!("section order {:?}", so), loc);
        }));
    }
    // G5b: DESC elements that do not belong to a PDU; many definitions with duplicated ids
    {
        let descs = [Desc::Absent, Desc::Empty, Desc::EmptyTag, Desc::Text("own".into())];
        // the element placed right before the PDU: coding, signal, frame, nothing (project only)
        let sp = Space::new(&[4, descs.len(), 2, 2]);
        let s2 = sp.clone();
        let descs = &descs;
        ctx.run_family(Family::new("c11.foreign_desc", sp.size(), "documents in which PROJECT, CODING, SIGNAL and FRAME elements carry their own DESC: the element right before a PDU is a coding / signal / frame / none x the PDU's own DESC {absent, empty, empty tag, text} x a second PDU follows or not x indentation", move |i, loc| {
            let c = s2.coords(i);
            let cod = Elem::Coding(Coding { id: "COD_A".into(), base_type: "A_UINT16".into() });
            let sig = Elem::Signal(Signal { id: "SIG_A".into(), coding_ref: "COD_A".into() });
            let other = Elem::Frame(frame("ID_9", "other", &[], Some(manuf(Some("APP9"), Some("CTX9"), None, None))));
            let p1 = Elem::Pdu(pdu("P1", descs[c[1]].clone(), &[("SIG_A", 0)]));
            let p2 = Elem::Pdu(pdu("P2", Desc::Absent, &[("S_UINT8", 0)]));
            let f = Elem::Frame(frame("ID_1", "f", &[("P1", 0)], None));
            let mut elems: Vec<Elem> = match c[0] {
                0 => vec![sig.clone(), cod.clone(), p1],
                1 => vec![cod.clone(), sig.clone(), p1],
                2 => vec![cod.clone(), sig.clone(), other.clone(), p1],
                _ => vec![p1, cod.clone(), sig.clone()],
            };
            if c[2] == 1 {
                elems.push(other.clone());
                elems.push(p2);
                elems.push(Elem::Frame(frame("ID_2", "g", &[("P2", 0)], None)));
            }
            elems.push(f);
            judge(&[elems], &[Layout { foreign_desc: true, indent: c[3] == 0, ..Layout::default() }], &format!("foreign DESC elements, shape {:?}", c), loc);
        }));
        // decoy attributes: namespaced attributes whose names end in ID / ID-REF / BASE-DATA-TYPE in front of the real ones
        {
            let (refs, defs) = vocabulary();
            let n = refs.len();
            let sp = Space::new(&[n, 2, 2]);
            let s2 = sp.clone();
            let (refs, defs) = (&refs, &defs);
            ctx.run_family(Family::new("c11.decoy_attributes", sp.size(), format!("every entry of the {}-entry signal vocabulary in a PDU of a two-frame model rendered with decoy attributes (ext:OID, x:UUID before ID; ext:KID-REF before ID-REF; ext:ALT-BASE-DATA-TYPE before ho:BASE-DATA-TYPE) x ref style x indentation: the model is the one of the real attributes", n), move |i, loc| {
                let c = s2.coords(i);
                let mut elems: Vec<Elem> = defs.to_vec();
                elems.push(Elem::Pdu(pdu("P1", Desc::Text("d".into()), &[(&refs[c[0]], 1), ("S_UINT8", 0)])));
                elems.push(Elem::Pdu(pdu("P2", Desc::Absent, &[("S_BOOL", 0)])));
                elems.push(Elem::Frame(frame("ID_20", "twenty", &[("P2", 1), ("P1", 0)], Some(manuf(Some("APP1"), Some("CTX1"), None, None)))));
                elems.push(Elem::Frame(frame("ID_21", "twentyone", &[("P1", 0)], None)));
                judge(&[elems], &[Layout { foreign_attrs: true, refs_open_close: c[1] == 1, indent: c[2] == 0, ..Layout::default() }], &format!("decoy attributes, signal ref {}", refs[c[0]]), loc);
            }));
        }
        let counts: Vec<usize> = vec![2, 20, 21, 32, 33, 48, 100, 300];
        let sp = Space::new(&[counts.len(), 4, 2]);
        let s2 = sp.clone();
        let counts = &counts;
        ctx.run_family(Family::new("c11.many_duplicates", sp.size(), format!("N in {:?} PDUs (and N frames) each defined twice with different content: all first definitions then all second ones / interleaved / second ones in reverse order / the second ones in a second file; PDUs or frames duplicated: the first definition must win for every id", counts), move |i, loc| {
            let c = s2.coords(i);
            let n = counts[c[0]];
            let dup_frames = c[2] == 1;
            let first: Vec<Elem> = (0..n).map(|r| if dup_frames { Elem::Frame(frame(&format!("ID_{}", r), &format!("first{}", r), &[("P0", 0)], Some(manuf(Some("APP"), Some(&format!("C{}", r)), None, None)))) } else { Elem::Pdu(pdu(&format!("P{}", r), Desc::Text(format!("first {}", r)), &[("S_UINT8", 0)])) }).collect();
            let second: Vec<Elem> = (0..n).map(|r| if dup_frames { Elem::Frame(frame(&format!("ID_{}", r), &format!("second{}", r), &[("P0", 0)], Some(manuf(Some("APP"), Some(&format!("C{}", r)), Some("T"), None)))) } else { Elem::Pdu(pdu(&format!("P{}", r), Desc::Text(format!("second {}", r)), &[("S_SINT16", 0), ("S_BOOL", 1)])) }).collect();
            let tail: Vec<Elem> = if dup_frames { vec![Elem::Pdu(pdu("P0", Desc::Absent, &[("S_UINT8", 0)]))] } else { (0..n).map(|r| Elem::Frame(frame(&format!("ID_{}", r), "f", &[(format!("P{}", r).as_str(), 0)], None))).collect() };
            let files: Vec<Vec<Elem>> = match c[1] {
                0 => vec![first.iter().chain(second.iter()).chain(tail.iter()).cloned().collect()],
                1 => vec![first.iter().zip(second.iter()).flat_map(|(a, b)| [a.clone(), b.clone()]).chain(tail.iter().cloned()).collect()],
                2 => vec![first.iter().chain(second.iter().rev()).chain(tail.iter()).cloned().collect()],
                _ => vec![first.iter().chain(tail.iter()).cloned().collect(), second.clone()],
            };
            judge(&files, &[Layout::default()], &format!("{} {} defined twice, arrangement {}", n, if dup_frames { "frames" } else { "PDUs" }, c[1]), loc);
        }).chunk(1));
    }
    // G6: sequence numbers of different digit counts (numeric, not textual, order) and many instances
    {
        let seqs: Vec<usize> = vec![0, 2, 9, 10, 11, 99, 100, 101, 1000, 65_535, 4_294_967_295];
        let n = seqs.len();
        let sp = Space::new(&[n, n, n, 2]);
        let s2 = sp.clone();
        let seqs = &seqs;
        ctx.run_family(Family::new("c11.sequence_numbers", sp.size(), format!("three signal instances of a PDU / three PDU instances of a FRAME with ALL ordered triples of distinct sequence numbers from {:?} (different digit counts: numeric order differs from text order)", seqs), move |i, loc| {
            let c = s2.coords(i);
            if c[0] == c[1] || c[1] == c[2] || c[0] == c[2] {
                return;
            }
            let (a, b, d) = (seqs[c[0]], seqs[c[1]], seqs[c[2]]);
            let elems = if c[3] == 0 {
                vec![Elem::Pdu(pdu("P1", Desc::Absent, &[("S_UINT8", a), ("S_SINT16", b), ("S_FLOA32", d)])), Elem::Frame(frame("ID_1", "f", &[("P1", 0)], None))]
            } else {
                vec![Elem::Pdu(pdu("P1", Desc::Absent, &[("S_UINT8", 0)])), Elem::Pdu(pdu("P2", Desc::Absent, &[("S_SINT16", 0)])), Elem::Pdu(pdu("P3", Desc::Absent, &[("S_FLOA32", 0)])), Elem::Frame(frame("ID_1", "f", &[("P1", a), ("P2", b), ("P3", d)], None))]
            };
            judge(&[elems], &[Layout::default()], &format!("{} with sequence numbers ({}, {}, {}) in document order", if c[3] == 0 { "signal instances" } else { "PDU instances" }, a, b, d), loc);
        }));
        let counts: Vec<usize> = {
            let mut v: Vec<usize> = (4..=34).collect();
            v.extend([63, 64, 65, 100, 255, 256, 257, 1000]);
            if ctx.tier == Tier::Thorough {
                v.extend([4096, 20_000]);
            }
            v
        };
        let sp = Space::new(&[counts.len(), 3, 3]);
        let s2 = sp.clone();
        let counts = &counts;
        ctx.run_family(Family::new("c11.many_instances", sp.size(), format!("N in {:?}: a PDU with N signal instances / a FRAME with N PDU instances / N frames each with its own PDU and a distinct (application, context) key; document order = ascending, descending or a stride permutation of the sequence numbers; sequence numbers 0.. / 5,15,25.. ", counts), move |i, loc| {
            let c = s2.coords(i);
            let n = counts[c[0]];
            let order: Vec<usize> = match c[1] {
                0 => (0..n).collect(),
                1 => (0..n).rev().collect(),
                _ => {
                    // i -> i * k mod n with k coprime to n
                    let mut k = 7;
                    while gcd(k, n) != 1 {
                        k += 2;
                    }
                    (0..n).map(|i| (i * k + 3) % n).collect()
                }
            };
            let sigs = ["S_UINT8", "S_SINT16", "S_FLOA32", "S_BOOL", "S_STRG_UTF8", "S_RAWD", "S_UINT64", "NO_SUCH_SIGNAL", "S_FLOA16"];
            let elems: Vec<Elem> = match c[2] {
                0 => {
                    let names: Vec<(&str, usize)> = order.iter().map(|r| (sigs[*r % sigs.len()], r * 10 + 5)).collect();
                    vec![Elem::Pdu(pdu("P1", Desc::Text("many signals".into()), &names)), Elem::Frame(frame("ID_1", "f", &[("P1", 0)], None))]
                }
                1 => {
                    let ids: Vec<String> = (0..n).map(|r| format!("P{}", r)).collect();
                    let mut v: Vec<Elem> = (0..n).map(|r| Elem::Pdu(pdu(&ids[r], Desc::Absent, &[(sigs[r % sigs.len()], 0)]))).collect();
                    let refs: Vec<(&str, usize)> = order.iter().map(|r| (ids[*r].as_str(), *r)).collect();
                    v.push(Elem::Frame(frame("ID_1", "f", &refs, None)));
                    v
                }
                _ => {
                    let mut v: Vec<Elem> = vec![];
                    for r in &order {
                        let pid = format!("P{}", r);
                        v.push(Elem::Pdu(pdu(&pid, Desc::Text(format!("pdu {}", r)), &[(sigs[r % sigs.len()], 0)])));
                        v.push(Elem::Frame(frame(&format!("ID_{}", r), &format!("frame{}", r), &[(pid.as_str(), 0)], Some(manuf(Some(&format!("A{}", r % 50)), Some(&format!("C{}", r)), None, None)))));
                    }
                    v
                }
            };
            judge(&[elems], &[Layout { indent: c[1] != 1, ..Layout::default() }], &format!("{} instances, order variant {}, shape {}", n, c[1], c[2]), loc);
        }).chunk(1));
    }
    // G6b: the same PDU referenced several times by one frame / the same signal several times by one PDU
    {
        // all sequences of length 1..=4 over two targets: 2 + 4 + 8 + 16 = 30
        let mut seqs: Vec<Vec<usize>> = vec![];
        for len in 1..=4usize {
            for code in 0..(1usize << len) {
                seqs.push((0..len).map(|k| (code >> k) & 1).collect());
            }
        }
        let sp = Space::new(&[seqs.len(), 2, 3, 2]);
        let s2 = sp.clone();
        let seqs = &seqs;
        ctx.run_family(Family::new("c11.repeated_refs", sp.size(), "ALL sequences of length 1..=4 over two targets as the PDU instances of a FRAME (the same PDU referenced 2-4 times, adjacent or not) / as the signal instances of a PDU x document order {ascending, descending sequence numbers} x sequence numbers {0.., 10,20.., 3,2,1 reversed gaps}: every instance yields its own entry", move |i, loc| {
            let c = s2.coords(i);
            let q = &seqs[c[0]];
            let n = q.len();
            let seq_no = |k: usize| match c[2] {
                0 => k,
                1 => (k + 1) * 10,
                _ => k * k + 3,
            };
            let order: Vec<usize> = if c[1] == 0 { (0..n).collect() } else { (0..n).rev().collect() };
            let elems: Vec<Elem> = if c[3] == 0 {
                let pids = ["P1", "P2"];
                let refs: Vec<(&str, usize)> = order.iter().map(|k| (pids[q[*k]], seq_no(*k))).collect();
                vec![Elem::Pdu(pdu("P1", Desc::Text("one".into()), &[("S_UINT8", 0)])), Elem::Pdu(pdu("P2", Desc::Absent, &[("S_SINT16", 0), ("S_BOOL", 1)])), Elem::Frame(frame("ID_1", "f", &refs, Some(manuf(Some("APP1"), Some("CTX1"), None, None))))]
            } else {
                let sids = ["S_UINT8", "S_STRG_UTF8"];
                let refs: Vec<(&str, usize)> = order.iter().map(|k| (sids[q[*k]], seq_no(*k))).collect();
                vec![Elem::Pdu(pdu("P1", Desc::Absent, &refs)), Elem::Frame(frame("ID_1", "f", &[("P1", 0), ("P1", 1)], None))]
            };
            judge(&[elems], &[Layout::default()], &format!("{} referencing targets {:?} (document order {:?})", if c[3] == 0 { "frame with PDU instances" } else { "PDU with signal instances" }, q, order), loc);
        }));
    }
    // G6b2: equal sequence numbers.  The statement orders by sequence number and says nothing about
    // ties, so the tied instances reference the SAME target: whatever order a loader gives them, the
    // model is the same - but every instance must still be there
    {
        let shapes: Vec<Vec<(usize, usize)>> = vec![vec![(0, 0), (0, 0)], vec![(0, 1), (0, 1), (0, 1)], vec![(0, 0), (1, 1), (1, 1)], vec![(1, 2), (0, 5), (0, 5), (1, 9)], vec![(0, 3), (0, 3), (1, 3), (1, 3)].into_iter().take(2).collect(), vec![(1, 0), (0, 7), (0, 7), (0, 7), (1, 8)]];
        let sp = Space::new(&[shapes.len(), 2, 2]);
        let s2 = sp.clone();
        let shapes = &shapes;
        ctx.run_family(Family::new("c11.sequence_ties", sp.size(), "PDU instances of a FRAME / signal instances of a PDU with EQUAL sequence numbers among instances that reference the same target (2-3 tied instances, alone or among others) x document order as listed / reversed: every instance yields its entry", move |i, loc| {
            let c = s2.coords(i);
            let mut q = shapes[c[0]].clone();
            if c[1] == 1 {
                q.reverse();
            }
            let elems: Vec<Elem> = if c[2] == 0 {
                let pids = ["P1", "P2"];
                let refs: Vec<(&str, usize)> = q.iter().map(|(t, s)| (pids[*t], *s)).collect();
                vec![Elem::Pdu(pdu("P1", Desc::Text("one".into()), &[("S_UINT8", 0)])), Elem::Pdu(pdu("P2", Desc::Absent, &[("S_SINT16", 0), ("S_BOOL", 1)])), Elem::Frame(frame("ID_1", "f", &refs, None))]
            } else {
                let sids = ["S_UINT8", "S_STRG_UTF8"];
                let refs: Vec<(&str, usize)> = q.iter().map(|(t, s)| (sids[*t], *s)).collect();
                vec![Elem::Pdu(pdu("P1", Desc::Absent, &refs)), Elem::Frame(frame("ID_1", "f", &[("P1", 0)], None))]
            };
            judge(&[elems], &[Layout::default()], &format!("{} with (target, sequence number) list {:?}", if c[2] == 0 { "frame" } else { "PDU" }, q), loc);
        }));
    }
    // G6c: BYTE-LENGTH is not part of the model: whatever it says, the PDU keeps its signals and the
    // frame its PDUs
    {
        let lens: Vec<usize> = vec![0, 1, 2, 4, 255, 256, 65_535, 65_536, 4_294_967_295];
        let nl = lens.len();
        let sp = Space::new(&[nl, nl, 3, 2]);
        let s2 = sp.clone();
        let lens = &lens;
        ctx.run_family(Family::new("c11.byte_lengths", sp.size(), format!("PDU BYTE-LENGTH x FRAME BYTE-LENGTH over {:?} (all pairs) x the PDU has 0 / 1 / 2 signal instances and a DESC x indentation: byte lengths do not change the model", lens), move |i, loc| {
            let c = s2.coords(i);
            let sigs: &[(&str, usize)] = match c[2] {
                0 => &[],
                1 => &[("S_STRG_UTF8", 0)],
                _ => &[("S_UINT32", 1), ("S_RAWD", 0)],
            };
            let mut p = pdu("P1", Desc::Text("static text or variable-length argument".into()), sigs);
            p.byte_length = lens[c[0]];
            let mut p2 = pdu("P2", Desc::Absent, &[("S_BOOL", 0)]);
            p2.byte_length = lens[c[1]];
            let mut f = frame("ID_1", "f", &[("P1", 0), ("P2", 1)], Some(manuf(Some("APP1"), Some("CTX1"), None, None)));
            f.byte_length = lens[c[1]];
            judge(&[vec![Elem::Pdu(p), Elem::Pdu(p2), Elem::Frame(f)]], &[Layout { indent: c[3] == 0, ..Layout::default() }], &format!("PDU BYTE-LENGTH {}, FRAME BYTE-LENGTH {}, {} signal instances", lens[c[0]], lens[c[1]], c[2]), loc);
        }));
    }
    // G7: text content at its edges: leading / trailing / inner / only white space, entities and
    // multi-byte characters at the edges, in every text-bearing field of the model
    {
        let texts: Vec<String> = vec![" x", "x ", " x ", "  x", "\tx", "\nx", "x\n", "\r\nx", "a  b", "a \n b", " ", "  ", "\t", "\u{a0}x", "x\u{a0}", "\u{2003}x", "&x", "x&", "<x>", " <x> ", "&amp;", " &", "\"q\"", "'", "é", " é ", "é ", " \u{1F600}", "0 ", " 0", " km/h", "x y z ", "]]>", " ]]> "].into_iter().map(String::from).chain([format!(" {}", "w".repeat(300)), format!("{} ", "w".repeat(300))]).collect();
        let sp = Space::new(&[6, texts.len(), 2, 2]);
        let s2 = sp.clone();
        let texts = &texts;
        ctx.run_family(Family::new("c11.text_edges", sp.size(), format!("{} texts with white space / entities / multi-byte characters at their edges (leading, trailing, inner, white space only: blank, tab, line break, NBSP, EM SPACE) in each of the 6 text-bearing fields {{PDU DESC, FRAME SHORT-NAME, APPLICATION_ID, CONTEXT_ID, MESSAGE_TYPE, MESSAGE_INFO}} x indentation x noise: the model holds the text exactly as written", texts.len()), move |i, loc| {
            let c = s2.coords(i);
            let t = texts[c[1]].as_str();
            let pick = |k: usize, base: &str| -> String { if c[0] == k { t.to_string() } else { base.to_string() } };
            let elems = vec![
                Elem::Pdu(pdu("P1", Desc::Text(pick(0, "plain")), &[("S_UINT8", 0)])),
                Elem::Pdu(pdu("P2", Desc::Absent, &[("S_BOOL", 0)])),
                Elem::Frame(frame("ID_1", &pick(1, "one"), &[("P1", 0), ("P2", 1)], Some(manuf(Some(&pick(2, "APP1")), Some(&pick(3, "CTX1")), Some(&pick(4, "DLT_TYPE_LOG")), Some(&pick(5, "DLT_LOG_INFO")))))),
                Elem::Frame(frame("ID_2", "two", &[("P2", 0)], Some(manuf(Some("APP1"), Some("CTX1"), None, None)))),
            ];
            judge(&[elems], &[Layout { indent: c[2] == 0, noise: c[3] == 1, ..Layout::default() }], &format!("text {:?} in field {}", t, ["PDU DESC", "FRAME SHORT-NAME", "APPLICATION_ID", "CONTEXT_ID", "MESSAGE_TYPE", "MESSAGE_INFO"][c[0]]), loc);
        }));
    }
    cleanup_scratch();
}

fn gcd(a: usize, b: usize) -> usize {
    if b == 0 {
        a
    } else {
        gcd(b, a % b)
    }
}
