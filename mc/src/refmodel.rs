//! Independent reference model of the AUTOSAR DLT wire format (PRS_Dlt layout), written in the
//! harness, *not* derived from the crate's writer or parser:
//!   * `RefMsg` -- harness-owned abstract message description,
//!   * `encode` -- RefMsg -> bytes (+ map of structural sites),
//!   * `decode` -- bytes -> Message / Incomplete / Reject with the verdict order of property C02,
//!   * `to_crate` -- RefMsg -> dlt_core::dlt::Message (the only place crate constructors are used),
//!   * `same_message` / `fp` -- bit-exact comparison and fingerprint of crate values.

use dlt_core::dlt::*;

// ---------------------------------------------------------------------------------------------
// abstract message
// ---------------------------------------------------------------------------------------------

#[derive(Clone, Debug, PartialEq, Eq, Hash)]
pub struct RefStorage {
    pub secs: u32,
    pub micros: u32,
    pub ecu: String,
}

#[derive(Clone, Debug, PartialEq, Eq, Hash)]
pub struct RefExt {
    pub verbose: bool,
    pub noar: u8,
    /// message type, MSIN bits 1-3
    pub mstp: u8,
    /// message type info, MSIN bits 4-7
    pub mtin: u8,
    pub apid: String,
    pub ctid: String,
}

/// kind + width in bytes
#[derive(Clone, Copy, Debug, PartialEq, Eq, Hash)]
pub enum RefKind {
    Bool,
    Sint(u8),
    Uint(u8),
    SFix(u8),
    UFix(u8),
    Float(u8),
    Str,
    Raw,
}

#[derive(Clone, Debug, PartialEq, Eq, Hash)]
pub enum RefValue {
    Bool(u8),
    /// value, width in bytes
    U(u128, u8),
    I(i128, u8),
    F32(u32),
    F64(u64),
    Str(String),
    Raw(Vec<u8>),
}

#[derive(Clone, Debug, PartialEq, Eq, Hash)]
pub struct RefArg {
    pub kind: RefKind,
    pub vari: bool,
    pub trai: bool,
    pub scod: u8,
    pub name: Option<String>,
    pub unit: Option<String>,
    /// (quantization as f32 bits, offset); offset width = data width (4 -> i32, 8 -> i64)
    pub fixp: Option<(u32, i64)>,
    pub value: RefValue,
}

#[derive(Clone, Debug, PartialEq, Eq, Hash)]
pub enum RefPayload {
    Verbose(Vec<RefArg>),
    NonVerbose(u32, Vec<u8>),
    Control(u8, Vec<u8>),
    NetworkTrace(Vec<Vec<u8>>),
}

#[derive(Clone, Debug, PartialEq, Eq, Hash)]
pub struct RefMsg {
    pub storage: Option<RefStorage>,
    pub version: u8,
    pub big: bool,
    pub mcnt: u8,
    pub ecu: Option<String>,
    pub session: Option<u32>,
    pub timestamp: Option<u32>,
    pub ext: Option<RefExt>,
    /// declared payload length = LEN - header lengths
    pub payload_len: u16,
    pub payload: RefPayload,
}

pub const MSTP_LOG: u8 = 0;
pub const MSTP_APP_TRACE: u8 = 1;
pub const MSTP_NW_TRACE: u8 = 2;
pub const MSTP_CONTROL: u8 = 3;

// ---------------------------------------------------------------------------------------------
// byte-order helpers
// ---------------------------------------------------------------------------------------------

fn put_uint(out: &mut Vec<u8>, v: u128, width: usize, big: bool) {
    let le = v.to_le_bytes();
    if big {
        for i in (0..width).rev() {
            out.push(le[i]);
        }
    } else {
        out.extend_from_slice(&le[..width]);
    }
}
fn get_uint(b: &[u8], big: bool) -> u128 {
    let mut v: u128 = 0;
    if big {
        for x in b {
            v = (v << 8) | *x as u128;
        }
    } else {
        for x in b.iter().rev() {
            v = (v << 8) | *x as u128;
        }
    }
    v
}
fn sign_extend(v: u128, width: usize) -> i128 {
    if width == 16 {
        v as i128
    } else {
        let shift = 128 - 8 * width as u32;
        ((v << shift) as i128) >> shift
    }
}
fn put_id4(out: &mut Vec<u8>, s: &str) {
    let b = s.as_bytes();
    out.extend_from_slice(b);
    for _ in b.len()..4 {
        out.push(0);
    }
}

/// The fixed-size NUL-terminated field rule (property C19), written without `valid_up_to`:
/// the bytes before the first NUL, cut to their longest valid UTF-8 prefix.
pub fn clean_field(field: &[u8]) -> String {
    let end = field.iter().position(|b| *b == 0).unwrap_or(field.len());
    let mut k = end;
    loop {
        if let Ok(s) = std::str::from_utf8(&field[..k]) {
            return s.to_string();
        }
        k -= 1;
    }
}

// ---------------------------------------------------------------------------------------------
// type info word
// ---------------------------------------------------------------------------------------------

pub const TI_BOOL: u32 = 1 << 4;
pub const TI_SINT: u32 = 1 << 5;
pub const TI_UINT: u32 = 1 << 6;
pub const TI_FLOA: u32 = 1 << 7;
pub const TI_ARAY: u32 = 1 << 8;
pub const TI_STRG: u32 = 1 << 9;
pub const TI_RAWD: u32 = 1 << 10;
pub const TI_VARI: u32 = 1 << 11;
pub const TI_FIXP: u32 = 1 << 12;
pub const TI_TRAI: u32 = 1 << 13;
pub const TI_STRU: u32 = 1 << 14;

fn tyle_of(width: u8) -> u32 {
    match width {
        1 => 1,
        2 => 2,
        4 => 3,
        8 => 4,
        16 => 5,
        _ => panic!("refmodel: no TYLE for width {}", width),
    }
}
fn width_of_tyle(tyle: u32) -> Option<u8> {
    match tyle {
        1 => Some(1),
        2 => Some(2),
        3 => Some(4),
        4 => Some(8),
        5 => Some(16),
        _ => None,
    }
}

pub fn type_info_word(a: &RefArg) -> u32 {
    let mut w = match a.kind {
        RefKind::Bool => TI_BOOL,
        RefKind::Sint(n) => TI_SINT | tyle_of(n),
        RefKind::Uint(n) => TI_UINT | tyle_of(n),
        RefKind::SFix(n) => TI_SINT | TI_FIXP | tyle_of(n),
        RefKind::UFix(n) => TI_UINT | TI_FIXP | tyle_of(n),
        RefKind::Float(n) => TI_FLOA | tyle_of(n),
        RefKind::Str => TI_STRG,
        RefKind::Raw => TI_RAWD,
    };
    if a.vari {
        w |= TI_VARI;
    }
    if a.trai {
        w |= TI_TRAI;
    }
    w |= ((a.scod & 7) as u32) << 15;
    w
}

/// Decode a type-info word per the stated dialect: exactly one supported kind bit among bits
/// 4..10 (ARAY unsupported), supported width; TYLE ignored for bool/string/raw; STRU and bits
/// 18..31 ignored; FIXP ignored on non-integer kinds.
pub fn decode_type_info(w: u32) -> Option<(RefKind, bool, bool, u8)> {
    let kind_bits = w & (TI_BOOL | TI_SINT | TI_UINT | TI_FLOA | TI_ARAY | TI_STRG | TI_RAWD);
    let tyle = w & 0xF;
    let fixp = w & TI_FIXP != 0;
    let kind = if kind_bits == TI_BOOL {
        RefKind::Bool
    } else if kind_bits == TI_SINT || kind_bits == TI_UINT {
        let signed = kind_bits == TI_SINT;
        if fixp {
            let n = match tyle {
                3 => 4,
                4 => 8,
                _ => return None,
            };
            if signed {
                RefKind::SFix(n)
            } else {
                RefKind::UFix(n)
            }
        } else {
            let n = width_of_tyle(tyle)?;
            if signed {
                RefKind::Sint(n)
            } else {
                RefKind::Uint(n)
            }
        }
    } else if kind_bits == TI_FLOA {
        match tyle {
            3 => RefKind::Float(4),
            4 => RefKind::Float(8),
            _ => return None,
        }
    } else if kind_bits == TI_STRG {
        RefKind::Str
    } else if kind_bits == TI_RAWD {
        RefKind::Raw
    } else {
        return None;
    };
    Some((kind, w & TI_VARI != 0, w & TI_TRAI != 0, ((w >> 15) & 7) as u8))
}

// ---------------------------------------------------------------------------------------------
// encoder
// ---------------------------------------------------------------------------------------------

/// Offsets of structural fields inside an encoding (for the deviation-bounded neighbourhoods).
#[derive(Clone, Debug, Default)]
pub struct Sites {
    /// (offset, length, label)
    pub sites: Vec<(usize, usize, &'static str)>,
}
impl Sites {
    fn add(&mut self, off: usize, len: usize, label: &'static str) {
        self.sites.push((off, len, label));
    }
}

fn put_len_prefixed_name(out: &mut Vec<u8>, s: &str, big: bool) {
    put_uint(out, s.len() as u128 + 1, 2, big);
    out.extend_from_slice(s.as_bytes());
    out.push(0);
}

pub fn encode_arg(a: &RefArg, big: bool, out: &mut Vec<u8>, sites: &mut Sites) {
    sites.add(out.len(), 4, "type_info");
    put_uint(out, type_info_word(a) as u128, 4, big);
    let name = a.name.as_deref().unwrap_or("");
    let unit = a.unit.as_deref().unwrap_or("");
    match a.kind {
        RefKind::Bool => {
            if a.vari {
                sites.add(out.len(), 2, "name_len");
                put_len_prefixed_name(out, name, big);
            }
            match &a.value {
                RefValue::Bool(v) => out.push(*v),
                v => panic!("refmodel: bool kind with value {:?}", v),
            }
        }
        RefKind::Sint(n) | RefKind::Uint(n) | RefKind::SFix(n) | RefKind::UFix(n) | RefKind::Float(n) => {
            if a.vari {
                sites.add(out.len(), 2, "name_len");
                put_uint(out, name.len() as u128 + 1, 2, big);
                sites.add(out.len(), 2, "unit_len");
                put_uint(out, unit.len() as u128 + 1, 2, big);
                out.extend_from_slice(name.as_bytes());
                out.push(0);
                out.extend_from_slice(unit.as_bytes());
                out.push(0);
            }
            if let RefKind::SFix(_) | RefKind::UFix(_) = a.kind {
                let (q, off) = a.fixp.expect("refmodel: fixed-point kind without data");
                sites.add(out.len(), 4, "quantization");
                put_uint(out, q as u128, 4, big);
                sites.add(out.len(), n as usize, "offset");
                put_uint(out, off as i128 as u128, n as usize, big);
            }
            match &a.value {
                RefValue::U(v, w) if *w == n => put_uint(out, *v, n as usize, big),
                RefValue::I(v, w) if *w == n => put_uint(out, *v as u128, n as usize, big),
                RefValue::F32(bits) if n == 4 => put_uint(out, *bits as u128, 4, big),
                RefValue::F64(bits) if n == 8 => put_uint(out, *bits as u128, 8, big),
                v => panic!("refmodel: numeric kind {:?} with value {:?}", a.kind, v),
            }
        }
        RefKind::Str => {
            let s = match &a.value {
                RefValue::Str(s) => s,
                v => panic!("refmodel: string kind with value {:?}", v),
            };
            sites.add(out.len(), 2, "str_len");
            put_uint(out, s.len() as u128 + 1, 2, big);
            if a.vari {
                sites.add(out.len(), 2, "name_len");
                put_len_prefixed_name(out, name, big);
            }
            out.extend_from_slice(s.as_bytes());
            out.push(0);
        }
        RefKind::Raw => {
            let r = match &a.value {
                RefValue::Raw(r) => r,
                v => panic!("refmodel: raw kind with value {:?}", v),
            };
            sites.add(out.len(), 2, "raw_len");
            put_uint(out, r.len() as u128, 2, big);
            if a.vari {
                sites.add(out.len(), 2, "name_len");
                put_len_prefixed_name(out, name, big);
            }
            out.extend_from_slice(r);
        }
    }
}

pub fn encode_payload(p: &RefPayload, big: bool, out: &mut Vec<u8>, sites: &mut Sites) {
    match p {
        RefPayload::Verbose(args) => {
            for a in args {
                encode_arg(a, big, out, sites);
            }
        }
        RefPayload::NonVerbose(id, data) => {
            sites.add(out.len(), 4, "message_id");
            put_uint(out, *id as u128, 4, big);
            out.extend_from_slice(data);
        }
        RefPayload::Control(id, data) => {
            sites.add(out.len(), 1, "service_id");
            out.push(*id);
            out.extend_from_slice(data);
        }
        RefPayload::NetworkTrace(slices) => {
            for s in slices {
                sites.add(out.len(), 4, "type_info");
                put_uint(out, TI_RAWD as u128, 4, big);
                sites.add(out.len(), 2, "raw_len");
                put_uint(out, s.len() as u128, 2, big);
                out.extend_from_slice(s);
            }
        }
    }
}

pub fn std_header_len(htyp: u8) -> usize {
    4 + if htyp & 0x04 != 0 { 4 } else { 0 } + if htyp & 0x08 != 0 { 4 } else { 0 } + if htyp & 0x10 != 0 { 4 } else { 0 }
}
pub fn all_headers_len(htyp: u8) -> usize {
    std_header_len(htyp) + if htyp & 0x01 != 0 { 10 } else { 0 }
}

pub fn htyp_of(m: &RefMsg) -> u8 {
    (m.ext.is_some() as u8)
        | ((m.big as u8) << 1)
        | ((m.ecu.is_some() as u8) << 2)
        | ((m.session.is_some() as u8) << 3)
        | ((m.timestamp.is_some() as u8) << 4)
        | ((m.version & 7) << 5)
}
pub fn msin_of(e: &RefExt) -> u8 {
    (e.verbose as u8) | ((e.mstp & 7) << 1) | ((e.mtin & 0xF) << 4)
}

/// Canonical encoding: LEN is computed from the actual payload (m.payload_len is ignored here and
/// must equal the payload size for a well-formed message -- `normalize` sets it).
pub fn encode(m: &RefMsg) -> (Vec<u8>, Sites) {
    let mut out = Vec::with_capacity(64);
    let mut sites = Sites::default();
    if let Some(s) = &m.storage {
        sites.add(0, 4, "pattern");
        out.extend_from_slice(b"DLT\x01");
        out.extend_from_slice(&s.secs.to_le_bytes());
        out.extend_from_slice(&s.micros.to_le_bytes());
        sites.add(out.len(), 4, "storage_ecu");
        put_id4(&mut out, &s.ecu);
    }
    let base = out.len();
    let htyp = htyp_of(m);
    sites.add(out.len(), 1, "htyp");
    out.push(htyp);
    out.push(m.mcnt);
    sites.add(out.len(), 2, "len");
    out.extend_from_slice(&[0, 0]);
    if let Some(e) = &m.ecu {
        sites.add(out.len(), 4, "ecu");
        put_id4(&mut out, e);
    }
    if let Some(s) = m.session {
        out.extend_from_slice(&s.to_be_bytes());
    }
    if let Some(t) = m.timestamp {
        out.extend_from_slice(&t.to_be_bytes());
    }
    if let Some(e) = &m.ext {
        sites.add(out.len(), 1, "msin");
        out.push(msin_of(e));
        sites.add(out.len(), 1, "noar");
        out.push(e.noar);
        sites.add(out.len(), 4, "apid");
        put_id4(&mut out, &e.apid);
        sites.add(out.len(), 4, "ctid");
        put_id4(&mut out, &e.ctid);
    }
    encode_payload(&m.payload, m.big, &mut out, &mut sites);
    let len = out.len() - base;
    assert!(len <= 0xFFFF, "refmodel: message longer than the 16-bit length field");
    out[base + 2] = (len >> 8) as u8;
    out[base + 3] = len as u8;
    (out, sites)
}

pub fn payload_size(p: &RefPayload, big: bool) -> usize {
    let mut v = Vec::new();
    encode_payload(p, big, &mut v, &mut Sites::default());
    v.len()
}

/// Make a message self-consistent: verbose flag, NOAR, payload_len from the payload.
pub fn normalize(mut m: RefMsg) -> RefMsg {
    let n = payload_size(&m.payload, m.big);
    assert!(n <= 0xFFFF);
    // the harness must only build well-formed messages: ids of at most 4 bytes without NUL, total
    // length within the 16-bit length field (a violation here is a machinery failure, never a verdict)
    for id in m.ecu.iter().chain(m.storage.iter().map(|s| &s.ecu)).chain(m.ext.iter().flat_map(|e| [&e.apid, &e.ctid])) {
        assert!(id.len() <= 4 && !id.contains('\0'), "harness built an id that is not well-formed: {:?}", id);
    }
    let headers = 4 + if m.ecu.is_some() { 4 } else { 0 } + if m.session.is_some() { 4 } else { 0 } + if m.timestamp.is_some() { 4 } else { 0 } + if m.ext.is_some() { 10 } else { 0 };
    assert!(headers + n <= 0xFFFF, "harness built a message of {} bytes (more than the 16-bit length field allows)", headers + n);
    m.payload_len = n as u16;
    if let Some(e) = &mut m.ext {
        match &m.payload {
            RefPayload::Verbose(a) => {
                e.verbose = true;
                e.noar = a.len() as u8;
                assert!(a.len() <= 255);
                assert!(e.mstp != MSTP_NW_TRACE, "verbose payload in a network-trace message is a NetworkTrace payload");
            }
            RefPayload::NetworkTrace(s) => {
                e.verbose = true;
                e.noar = s.len() as u8;
                assert!(s.len() <= 255);
                assert!(e.mstp == MSTP_NW_TRACE);
            }
            RefPayload::Control(..) => {
                e.verbose = false;
                assert!(e.mstp == MSTP_CONTROL);
            }
            RefPayload::NonVerbose(..) => {
                e.verbose = false;
                assert!(e.mstp != MSTP_CONTROL);
            }
        }
    } else {
        assert!(matches!(m.payload, RefPayload::NonVerbose(..)), "payload kind needs an extended header");
    }
    m
}

// ---------------------------------------------------------------------------------------------
// decoder
// ---------------------------------------------------------------------------------------------

#[derive(Clone, Debug, PartialEq)]
pub enum RefVerdict {
    /// message, number of bytes of the input consumed (junk + storage header + LEN)
    Message(Box<RefMsg>, usize),
    Incomplete,
    Reject(&'static str),
}
impl RefVerdict {
    pub fn class(&self) -> &'static str {
        match self {
            RefVerdict::Message(..) => "message",
            RefVerdict::Incomplete => "incomplete",
            RefVerdict::Reject(_) => "reject",
        }
    }
}

struct Cur<'a> {
    b: &'a [u8],
    pos: usize,
    big: bool,
}
impl<'a> Cur<'a> {
    fn take(&mut self, n: usize) -> Result<&'a [u8], &'static str> {
        if self.b.len() - self.pos < n {
            return Err("argument data runs past the declared payload");
        }
        let s = &self.b[self.pos..self.pos + n];
        self.pos += n;
        Ok(s)
    }
    fn uint(&mut self, n: usize) -> Result<u128, &'static str> {
        let big = self.big;
        Ok(get_uint(self.take(n)?, big))
    }
    fn field(&mut self, n: usize) -> Result<String, &'static str> {
        Ok(clean_field(self.take(n)?))
    }
}

fn decode_arg(c: &mut Cur) -> Result<RefArg, &'static str> {
    let w = c.uint(4)? as u32;
    let (kind, vari, trai, scod) = decode_type_info(w).ok_or("type info names no supported kind/width")?;
    let mut a = RefArg { kind, vari, trai, scod, name: None, unit: None, fixp: None, value: RefValue::Bool(0) };
    match kind {
        RefKind::Bool => {
            if vari {
                let n = c.uint(2)? as usize;
                a.name = Some(c.field(n)?);
            }
            a.value = RefValue::Bool(c.take(1)?[0]);
        }
        RefKind::Sint(n) | RefKind::Uint(n) | RefKind::SFix(n) | RefKind::UFix(n) | RefKind::Float(n) => {
            if vari {
                let nl = c.uint(2)? as usize;
                let ul = c.uint(2)? as usize;
                a.name = Some(c.field(nl)?);
                a.unit = Some(c.field(ul)?);
            }
            if let RefKind::SFix(_) | RefKind::UFix(_) = kind {
                let q = c.uint(4)? as u32;
                let off = sign_extend(c.uint(n as usize)?, n as usize) as i64;
                a.fixp = Some((q, off));
            }
            let raw = c.uint(n as usize)?;
            a.value = match kind {
                RefKind::Sint(_) | RefKind::SFix(_) => RefValue::I(sign_extend(raw, n as usize), n),
                RefKind::Uint(_) | RefKind::UFix(_) => RefValue::U(raw, n),
                RefKind::Float(4) => RefValue::F32(raw as u32),
                RefKind::Float(_) => RefValue::F64(raw as u64),
                _ => unreachable!(),
            };
        }
        RefKind::Str => {
            let len = c.uint(2)? as usize;
            if vari {
                let n = c.uint(2)? as usize;
                a.name = Some(c.field(n)?);
            }
            a.value = RefValue::Str(c.field(len)?);
        }
        RefKind::Raw => {
            let len = c.uint(2)? as usize;
            if vari {
                let n = c.uint(2)? as usize;
                a.name = Some(c.field(n)?);
            }
            a.value = RefValue::Raw(c.take(len)?.to_vec());
        }
    }
    Ok(a)
}

pub fn find_pattern(b: &[u8]) -> Option<usize> {
    if b.len() < 4 {
        return None;
    }
    (0..=b.len() - 4).find(|i| &b[*i..*i + 4] == b"DLT\x01")
}

/// Verdict order (property C02): incomplete while the buffer ends before the storage header
/// (incl. pattern not found yet), before the standard-header fields HTYP announces; reject if LEN
/// is smaller than the headers; incomplete while the buffer ends before the declared length;
/// then payload rules.
pub fn decode(input: &[u8], with_storage: bool) -> RefVerdict {
    let mut storage = None;
    let mut base = 0usize;
    if with_storage {
        if input.len() < 16 {
            return RefVerdict::Incomplete;
        }
        let k = match find_pattern(input) {
            Some(k) => k,
            None => return RefVerdict::Incomplete,
        };
        if input.len() - k < 16 {
            return RefVerdict::Incomplete;
        }
        let s = &input[k..k + 16];
        storage = Some(RefStorage {
            secs: u32::from_le_bytes([s[4], s[5], s[6], s[7]]),
            micros: u32::from_le_bytes([s[8], s[9], s[10], s[11]]),
            ecu: clean_field(&s[12..16]),
        });
        base = k + 16;
    }
    let b = &input[base..];
    if b.is_empty() {
        return RefVerdict::Incomplete;
    }
    let htyp = b[0];
    let shl = std_header_len(htyp);
    if b.len() < shl {
        return RefVerdict::Incomplete;
    }
    let len = ((b[2] as usize) << 8) | b[3] as usize;
    let ahl = all_headers_len(htyp);
    if len < ahl {
        return RefVerdict::Reject("LEN smaller than the headers HTYP announces");
    }
    if b.len() < len {
        return RefVerdict::Incomplete;
    }
    let mut pos = 4;
    let big = htyp & 0x02 != 0;
    let mut m = RefMsg {
        storage,
        version: htyp >> 5,
        big,
        mcnt: b[1],
        ecu: None,
        session: None,
        timestamp: None,
        ext: None,
        payload_len: (len - ahl) as u16,
        payload: RefPayload::NonVerbose(0, vec![]),
    };
    if htyp & 0x04 != 0 {
        m.ecu = Some(clean_field(&b[pos..pos + 4]));
        pos += 4;
    }
    if htyp & 0x08 != 0 {
        m.session = Some(u32::from_be_bytes([b[pos], b[pos + 1], b[pos + 2], b[pos + 3]]));
        pos += 4;
    }
    if htyp & 0x10 != 0 {
        m.timestamp = Some(u32::from_be_bytes([b[pos], b[pos + 1], b[pos + 2], b[pos + 3]]));
        pos += 4;
    }
    if htyp & 0x01 != 0 {
        let msin = b[pos];
        m.ext = Some(RefExt {
            verbose: msin & 1 != 0,
            noar: b[pos + 1],
            mstp: (msin >> 1) & 7,
            mtin: msin >> 4,
            apid: clean_field(&b[pos + 2..pos + 6]),
            ctid: clean_field(&b[pos + 6..pos + 10]),
        });
        pos += 10;
    }
    let payload = &b[pos..len];
    let (verbose, mstp, noar) = match &m.ext {
        Some(e) => (e.verbose, Some(e.mstp), e.noar),
        None => (false, None, 0),
    };
    if verbose {
        let mut c = Cur { b: payload, pos: 0, big };
        let mut args = Vec::with_capacity(noar as usize);
        for _ in 0..noar {
            match decode_arg(&mut c) {
                Ok(a) => args.push(a),
                Err(e) => return RefVerdict::Reject(e),
            }
        }
        if mstp == Some(MSTP_NW_TRACE) {
            // the crate's data model of a network-trace payload: the raw-data arguments' bytes
            let slices = args
                .into_iter()
                .filter_map(|a| match a.value {
                    RefValue::Raw(r) => Some(r),
                    _ => None,
                })
                .collect();
            m.payload = RefPayload::NetworkTrace(slices);
        } else {
            m.payload = RefPayload::Verbose(args);
        }
    } else if mstp == Some(MSTP_CONTROL) {
        if payload.is_empty() {
            return RefVerdict::Reject("control payload shorter than 1 byte");
        }
        m.payload = RefPayload::Control(payload[0], payload[1..].to_vec());
    } else {
        if payload.len() < 4 {
            return RefVerdict::Reject("non-verbose payload shorter than the 4-byte message id");
        }
        m.payload = RefPayload::NonVerbose(get_uint(&payload[..4], big) as u32, payload[4..].to_vec());
    }
    RefVerdict::Message(Box::new(m), base + len)
}

// ---------------------------------------------------------------------------------------------
// RefMsg -> crate Message (canonical enum codes)
// ---------------------------------------------------------------------------------------------

pub fn message_type_of(mstp: u8, mtin: u8) -> MessageType {
    match mstp {
        0 => MessageType::Log(match mtin {
            1 => LogLevel::Fatal,
            2 => LogLevel::Error,
            3 => LogLevel::Warn,
            4 => LogLevel::Info,
            5 => LogLevel::Debug,
            6 => LogLevel::Verbose,
            n => LogLevel::Invalid(n),
        }),
        1 => MessageType::ApplicationTrace(match mtin {
            1 => ApplicationTraceType::Variable,
            2 => ApplicationTraceType::FunctionIn,
            3 => ApplicationTraceType::FunctionOut,
            4 => ApplicationTraceType::State,
            5 => ApplicationTraceType::Vfb,
            n => ApplicationTraceType::Invalid(n),
        }),
        2 => MessageType::NetworkTrace(match mtin {
            0 => NetworkTraceType::Invalid,
            1 => NetworkTraceType::Ipc,
            2 => NetworkTraceType::Can,
            3 => NetworkTraceType::Flexray,
            4 => NetworkTraceType::Most,
            5 => NetworkTraceType::Ethernet,
            6 => NetworkTraceType::Someip,
            n => NetworkTraceType::UserDefined(n),
        }),
        3 => MessageType::Control(match mtin {
            1 => ControlType::Request,
            2 => ControlType::Response,
            n => ControlType::Unknown(n),
        }),
        t => MessageType::Unknown((t, mtin)),
    }
}

pub fn type_length_of(n: u8) -> TypeLength {
    match n {
        1 => TypeLength::BitLength8,
        2 => TypeLength::BitLength16,
        4 => TypeLength::BitLength32,
        8 => TypeLength::BitLength64,
        16 => TypeLength::BitLength128,
        _ => panic!("refmodel: width {}", n),
    }
}
pub fn float_width_of(n: u8) -> FloatWidth {
    match n {
        4 => FloatWidth::Width32,
        8 => FloatWidth::Width64,
        _ => panic!("refmodel: float width {}", n),
    }
}
pub fn kind_to_crate(k: RefKind) -> TypeInfoKind {
    match k {
        RefKind::Bool => TypeInfoKind::Bool,
        RefKind::Sint(n) => TypeInfoKind::Signed(type_length_of(n)),
        RefKind::Uint(n) => TypeInfoKind::Unsigned(type_length_of(n)),
        RefKind::SFix(n) => TypeInfoKind::SignedFixedPoint(float_width_of(n)),
        RefKind::UFix(n) => TypeInfoKind::UnsignedFixedPoint(float_width_of(n)),
        RefKind::Float(n) => TypeInfoKind::Float(float_width_of(n)),
        RefKind::Str => TypeInfoKind::StringType,
        RefKind::Raw => TypeInfoKind::Raw,
    }
}
pub fn coding_to_crate(scod: u8) -> StringCoding {
    match scod {
        0 => StringCoding::ASCII,
        1 => StringCoding::UTF8,
        n => StringCoding::Reserved(n),
    }
}
pub fn value_to_crate(v: &RefValue) -> Value {
    match v {
        RefValue::Bool(b) => Value::Bool(*b),
        RefValue::U(x, 1) => Value::U8(*x as u8),
        RefValue::U(x, 2) => Value::U16(*x as u16),
        RefValue::U(x, 4) => Value::U32(*x as u32),
        RefValue::U(x, 8) => Value::U64(*x as u64),
        RefValue::U(x, 16) => Value::U128(*x),
        RefValue::I(x, 1) => Value::I8(*x as i8),
        RefValue::I(x, 2) => Value::I16(*x as i16),
        RefValue::I(x, 4) => Value::I32(*x as i32),
        RefValue::I(x, 8) => Value::I64(*x as i64),
        RefValue::I(x, 16) => Value::I128(*x),
        RefValue::F32(b) => Value::F32(f32::from_bits(*b)),
        RefValue::F64(b) => Value::F64(f64::from_bits(*b)),
        RefValue::Str(s) => Value::StringVal(s.clone()),
        RefValue::Raw(r) => Value::Raw(r.clone()),
        other => panic!("refmodel: value {:?}", other),
    }
}
pub fn arg_to_crate(a: &RefArg) -> Argument {
    Argument {
        type_info: TypeInfo {
            kind: kind_to_crate(a.kind),
            coding: coding_to_crate(a.scod),
            has_variable_info: a.vari,
            has_trace_info: a.trai,
        },
        name: a.name.clone(),
        unit: a.unit.clone(),
        fixed_point: a.fixp.map(|(q, off)| FixedPoint {
            quantization: f32::from_bits(q),
            offset: match a.kind {
                RefKind::SFix(4) | RefKind::UFix(4) => FixedPointValue::I32(off as i32),
                _ => FixedPointValue::I64(off),
            },
        }),
        value: value_to_crate(&a.value),
    }
}
pub fn payload_to_crate(p: &RefPayload) -> PayloadContent {
    match p {
        RefPayload::Verbose(args) => PayloadContent::Verbose(args.iter().map(arg_to_crate).collect()),
        RefPayload::NonVerbose(id, d) => PayloadContent::NonVerbose(*id, d.clone()),
        RefPayload::Control(id, d) => PayloadContent::ControlMsg(
            match id {
                1 => ControlType::Request,
                2 => ControlType::Response,
                n => ControlType::Unknown(*n),
            },
            d.clone(),
        ),
        RefPayload::NetworkTrace(s) => PayloadContent::NetworkTrace(s.clone()),
    }
}
pub fn endianness_of(big: bool) -> Endianness {
    if big {
        Endianness::Big
    } else {
        Endianness::Little
    }
}
pub fn to_crate(m: &RefMsg) -> Message {
    Message {
        storage_header: m.storage.as_ref().map(|s| StorageHeader {
            timestamp: DltTimeStamp { seconds: s.secs, microseconds: s.micros },
            ecu_id: s.ecu.clone(),
        }),
        header: StandardHeader {
            version: m.version,
            endianness: endianness_of(m.big),
            has_extended_header: m.ext.is_some(),
            message_counter: m.mcnt,
            ecu_id: m.ecu.clone(),
            session_id: m.session,
            timestamp: m.timestamp,
            payload_length: m.payload_len,
        },
        extended_header: m.ext.as_ref().map(|e| ExtendedHeader {
            verbose: e.verbose,
            argument_count: e.noar,
            message_type: message_type_of(e.mstp, e.mtin),
            application_id: e.apid.clone(),
            context_id: e.ctid.clone(),
        }),
        payload: payload_to_crate(&m.payload),
    }
}

// ---------------------------------------------------------------------------------------------
// bit-exact comparison and fingerprint of crate values
// ---------------------------------------------------------------------------------------------

fn same_value(a: &Value, b: &Value) -> bool {
    match (a, b) {
        (Value::F32(x), Value::F32(y)) => x.to_bits() == y.to_bits(),
        (Value::F64(x), Value::F64(y)) => x.to_bits() == y.to_bits(),
        (Value::F32(_), _) | (Value::F64(_), _) | (_, Value::F32(_)) | (_, Value::F64(_)) => false,
        _ => a == b,
    }
}
pub fn same_argument(a: &Argument, b: &Argument) -> bool {
    a.type_info == b.type_info
        && a.name == b.name
        && a.unit == b.unit
        && match (&a.fixed_point, &b.fixed_point) {
            (None, None) => true,
            (Some(x), Some(y)) => x.quantization.to_bits() == y.quantization.to_bits() && x.offset == y.offset,
            _ => false,
        }
        && same_value(&a.value, &b.value)
}
pub fn same_payload(a: &PayloadContent, b: &PayloadContent) -> bool {
    match (a, b) {
        (PayloadContent::Verbose(x), PayloadContent::Verbose(y)) => {
            x.len() == y.len() && x.iter().zip(y.iter()).all(|(p, q)| same_argument(p, q))
        }
        (PayloadContent::Verbose(_), _) | (_, PayloadContent::Verbose(_)) => false,
        _ => a == b,
    }
}
/// Field-for-field equality with floats compared bit-for-bit.
pub fn same_message(a: &Message, b: &Message) -> bool {
    a.storage_header == b.storage_header
        && a.header == b.header
        && a.extended_header == b.extended_header
        && same_payload(&a.payload, &b.payload)
}

fn fp_value(v: &Value) -> String {
    match v {
        Value::F32(x) => format!("F32(bits=0x{:08x} {:?})", x.to_bits(), x),
        Value::F64(x) => format!("F64(bits=0x{:016x} {:?})", x.to_bits(), x),
        Value::Raw(r) if r.len() > 48 => format!("Raw({} bytes, fnv={:016x})", r.len(), crate::common::fnv64(r)),
        Value::StringVal(s) if s.len() > 48 => format!("StringVal({} bytes, fnv={:016x})", s.len(), crate::common::fnv64(s.as_bytes())),
        other => format!("{:?}", other),
    }
}
pub fn fp_argument(a: &Argument) -> String {
    format!(
        "Arg{{{:?} name={:?} unit={:?} fixp={} value={}}}",
        a.type_info,
        a.name.as_ref().map(|n| if n.len() > 32 { format!("<{} bytes>", n.len()) } else { n.clone() }),
        a.unit,
        match &a.fixed_point {
            None => "None".to_string(),
            Some(f) => format!("(q bits=0x{:08x} {:?}, {:?})", f.quantization.to_bits(), f.quantization, f.offset),
        },
        fp_value(&a.value)
    )
}
/// Human-readable bit-exact fingerprint (long strings / raw data abbreviated by hash).
pub fn fp(m: &Message) -> String {
    let payload = match &m.payload {
        PayloadContent::Verbose(args) => {
            format!("Verbose[{}]", args.iter().map(fp_argument).collect::<Vec<_>>().join(", "))
        }
        PayloadContent::NonVerbose(id, d) if d.len() > 48 => format!("NonVerbose({}, {} bytes fnv={:016x})", id, d.len(), crate::common::fnv64(d)),
        PayloadContent::ControlMsg(id, d) if d.len() > 48 => format!("ControlMsg({:?}, {} bytes fnv={:016x})", id, d.len(), crate::common::fnv64(d)),
        PayloadContent::NetworkTrace(s) if s.iter().any(|x| x.len() > 48) => format!(
            "NetworkTrace[{}]",
            s.iter().map(|x| format!("{} bytes fnv={:016x}", x.len(), crate::common::fnv64(x))).collect::<Vec<_>>().join(", ")
        ),
        other => format!("{:?}", other),
    };
    format!("storage={:?} header={:?} ext={:?} payload={}", m.storage_header, m.header, m.extended_header, payload)
}

/// the constructor configuration that describes a reference message (Message::new)
pub fn config_of(m: &RefMsg) -> MessageConfig {
    MessageConfig {
        version: m.version,
        counter: m.mcnt,
        endianness: endianness_of(m.big),
        ecu_id: m.ecu.clone(),
        session_id: m.session,
        timestamp: m.timestamp,
        payload: payload_to_crate(&m.payload),
        extended_header_info: m.ext.as_ref().map(|e| ExtendedHeaderConfig { message_type: message_type_of(e.mstp, e.mtin), app_id: e.apid.clone(), context_id: e.ctid.clone() }),
    }
}
