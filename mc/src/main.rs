//! dltmc: bounded exhaustive exploration ("model checking the implementation") of dlt-core.
//! Usage: dltmc <C01..C19> [--tier quick|thorough] [--replay <file>]
//! Exit 0: property held on everything explored; 1: VIOLATION line(s) printed; 2: machinery failure.

mod bulk;
mod common;
mod explore;
mod fibexgen;
mod inputs;
mod p01_roundtrip;
mod p02_refcodec;
mod p03_nocrash;
mod p04_consume;
mod p05_prefix;
mod p06_resync;
mod p07_reader;
mod p08_stream;
mod p09_filter;
mod p10_stats;
mod p11_fibex;
mod p12_fibexfault;
mod p13_construct;
mod p15_lengths;
mod p14_codes;
mod p16_reserialise;
mod p19_zstring;
mod refmodel;
mod universe;
mod p17_timestamp;
mod p18_fixedpoint;

use common::{Ctx, Tier};

fn main() {
    common::install_panic_hook();
    let args: Vec<String> = std::env::args().collect();
    if args.len() < 2 {
        eprintln!("usage: dltmc <property> [--tier quick|thorough] [--replay file]");
        std::process::exit(2);
    }
    let prop = args[1].clone();
    if prop == "bench" {
        // developer aid: cost of one parse of a prefix-sweep style input
        let mut buf: Vec<u8> = (0..65_575).map(|k| if k % 4 == 3 { 0u8 } else { 0x20 }).collect();
        for (hdr, what) in [([0x20u8, 0, 0x08, 0x01], "no ext, LEN 2049"), ([0x21, 0, 0x08, 0x01], "ext, LEN 2049"), ([0x3F, 0, 0x0F, 0x01], "all flags, LEN 3841"), ([0x20, 0, 0xFF, 0x01], "no ext, LEN 65281")] {
            buf[..4].copy_from_slice(&hdr);
            let t = std::time::Instant::now();
            let n = 200_000;
            let mut ok = 0u64;
            for _ in 0..n {
                if let Ok((_, dlt_core::parse::ParsedMessage::Item(_))) = dlt_core::parse::dlt_message(&buf, None, false) {
                    ok += 1;
                }
            }
            let d1 = t.elapsed().as_nanos() as f64 / n as f64;
            let t = std::time::Instant::now();
            for _ in 0..n {
                let _ = refmodel::decode(&buf, false);
            }
            let d2 = t.elapsed().as_nanos() as f64 / n as f64;
            println!("{:<22} dlt_message {:>9.0} ns (ok {}), reference decode {:>9.0} ns", what, d1, ok, d2);
        }
        return;
    }
    let mut tier = match std::env::var("VERIF_TIER").ok().as_deref() {
        Some("thorough") => Tier::Thorough,
        _ => Tier::Quick,
    };
    let mut replay: Option<serde_json::Value> = None;
    let mut i = 2;
    let mut rest: Vec<String> = vec![];
    while i < args.len() {
        match args[i].as_str() {
            "--tier" => {
                tier = match args.get(i + 1).map(|s| s.as_str()) {
                    Some("quick") => Tier::Quick,
                    Some("thorough") => Tier::Thorough,
                    _ => {
                        eprintln!("bad --tier");
                        std::process::exit(2)
                    }
                };
                i += 1;
            }
            "--replay" => {
                let path = args.get(i + 1).expect("--replay <file>");
                let txt = std::fs::read_to_string(path).unwrap_or_else(|e| {
                    eprintln!("cannot read replay file {}: {}", path, e);
                    std::process::exit(2)
                });
                let v: serde_json::Value = serde_json::from_str(&txt).expect("replay file is not JSON");
                if let Some(t) = v["tier"].as_str() {
                    tier = if t == "thorough" { Tier::Thorough } else { Tier::Quick };
                }
                replay = Some(v);
                i += 1;
            }
            "--worker" => {
                if prop == "C12" {
                    p12_fibexfault::worker_main();
                }
            }
            other => rest.push(other.to_string()),
        }
        i += 1;
    }
    let level = match prop.as_str() {
        "C12" => "fault_enumeration",
        _ => "model_checking",
    };
    let mut ctx = Ctx::new(&prop, tier, level);
    ctx.replay = replay;
    let r = std::panic::catch_unwind(std::panic::AssertUnwindSafe(|| {
        match prop.as_str() {
            "C01" => p01_roundtrip::run(&ctx),
            "C02" => p02_refcodec::run(&ctx),
            "C03" => p03_nocrash::run(&ctx),
            "C04" => p04_consume::run(&ctx),
            "C05" => p05_prefix::run(&ctx),
            "C06" => p06_resync::run(&ctx),
            "C07" => p07_reader::run(&ctx),
            "C08" => p08_stream::run(&ctx),
            "C09" => p09_filter::run(&ctx),
            "C15" => p15_lengths::run(&ctx),
            "C10" => p10_stats::run(&ctx),
            "C11" => p11_fibex::run(&ctx),
            "C12" => p12_fibexfault::run(&ctx),
            "C13" => p13_construct::run(&ctx),
            "C14" => p14_codes::run(&ctx),
            "C19" => p19_zstring::run(&ctx),
            "C16" => p16_reserialise::run(&ctx),
            "C17" => p17_timestamp::run(&ctx),
            "C18" => p18_fixedpoint::run(&ctx),
            _ => {
                eprintln!("unknown property {}", prop);
                std::process::exit(2);
            }
        }
        ctx.finish()
    }));
    match r {
        Ok(code) => std::process::exit(code),
        Err(_) => {
            eprintln!("MACHINERY FAILURE: harness panicked (see message above); no verdict");
            std::process::exit(2)
        }
    }
}
