//! dltmc: bounded exhaustive exploration ("model checking the implementation") of dlt-core.
//! Usage: dltmc <C01..C19> [--tier quick|thorough] [--replay <file>]
//! Exit 0: property held on everything explored; 1: VIOLATION line(s) printed; 2: machinery failure.

mod bulk;
mod common;
mod explore;
mod fibexgen;
mod inputs;
mod p01_roundtrip;
mod p02_refcodec;
mod p03_nocrash;
mod p04_consume;
mod p05_prefix;
mod p06_resync;
mod p07_reader;
mod p08_stream;
mod p09_filter;
mod p10_stats;
mod p11_fibex;
mod p12_fibexfault;
mod p13_construct;
mod p15_lengths;
mod p14_codes;
mod p16_reserialise;
mod p19_zstring;
mod refmodel;
mod universe;
mod p17_timestamp;
mod p18_fixedpoint;

use common::{Ctx, Tier};

const DEATH_KEY: &str = "the engine process dies (abort / stack overflow / kill) on this case";

fn run_property(prop: &str, ctx: &Ctx) {
        match prop {
            "C01" => p01_roundtrip::run(ctx),
            "C02" => p02_refcodec::run(ctx),
            "C03" => p03_nocrash::run(ctx),
            "C04" => p04_consume::run(ctx),
            "C05" => p05_prefix::run(ctx),
            "C06" => p06_resync::run(ctx),
            "C07" => p07_reader::run(ctx),
            "C08" => p08_stream::run(ctx),
            "C09" => p09_filter::run(ctx),
            "C15" => p15_lengths::run(ctx),
            "C10" => p10_stats::run(ctx),
            "C11" => p11_fibex::run(ctx),
            "C12" => p12_fibexfault::run(ctx),
            "C13" => p13_construct::run(ctx),
            "C14" => p14_codes::run(ctx),
            "C19" => p19_zstring::run(ctx),
            "C16" => p16_reserialise::run(ctx),
            "C17" => p17_timestamp::run(ctx),
            "C18" => p18_fixedpoint::run(ctx),
            _ => {
                eprintln!("unknown property {}", prop);
                std::process::exit(2);
            }
        }
}

/// run `dltmc <prop> --range fam lo hi` as a child; true if it was killed by a signal / aborted
fn child_dies(prop: &str, tier: Tier, fam: &str, lo: u64, hi: u64) -> bool {
    let exe = std::env::current_exe().expect("current_exe");
    let st = std::process::Command::new(exe)
        .args([prop, "--tier", tier.name(), "--range", fam, &lo.to_string(), &hi.to_string()])
        .env("DLTMC_THREADS", "1")
        .env_remove("DLTMC_CRUMBS")
        .stdout(std::process::Stdio::null())
        .stderr(std::process::Stdio::null())
        .status();
    match st {
        Ok(s) => s.code().map(|c| c != 0).unwrap_or(true),
        Err(_) => false,
    }
}

/// The engine died without a verdict: bisect the index ranges that were in flight (breadcrumbs) in
/// child processes; a case that kills the process every time is a violation with a replay file.
fn triage(prop: &str, tier: Tier, crumbs: &str) -> i32 {
    let text = std::fs::read_to_string(crumbs).unwrap_or_default();
    let mut found: Vec<(String, u64)> = vec![];
    for line in text.lines() {
        let parts: Vec<&str> = line.split('\t').collect();
        if parts.len() != 3 {
            continue;
        }
        let (fam, mut lo, mut hi) = (parts[0].to_string(), parts[1].parse::<u64>().unwrap_or(0), parts[2].parse::<u64>().unwrap_or(0));
        if hi <= lo || !child_dies(prop, tier, &fam, lo, hi) {
            continue;
        }
        while hi - lo > 1 {
            let mid = lo + (hi - lo) / 2;
            if child_dies(prop, tier, &fam, lo, mid) {
                hi = mid;
            } else {
                lo = mid;
            }
        }
        // the same single case must kill the process twice more
        if child_dies(prop, tier, &fam, lo, lo + 1) && child_dies(prop, tier, &fam, lo, lo + 1) {
            found.push((fam, lo));
        }
    }
    if found.is_empty() {
        println!("MACHINERY: the engine process died and no single case reproduces it; no verdict");
        return 2;
    }
    let dir = common::verif_dir();
    std::fs::create_dir_all(format!("{}/replays", dir)).ok();
    for (fam, idx) in &found {
        let is_trace = fam.ends_with(".trace");
        let path = format!("{}/replays/{}-death-{}-{}.json", dir, prop, fam.replace(['.', '/'], "_"), idx);
        let body = serde_json::json!({"property": prop, "tier": tier.name(), "family": fam, "index": idx, "key": DEATH_KEY, "description": format!("the engine process dies while dlt-core handles case {} of family {}{}", idx, fam, if is_trace { " (trace pass: index counts trace-pass cases)" } else { "" })});
        std::fs::write(&path, serde_json::to_string_pretty(&body).unwrap()).ok();
        println!("VIOLATION property={} replay={}", prop, path);
        println!("  family={} index={} key={}", fam, idx, DEATH_KEY);
    }
    1
}

fn main() {
    common::install_panic_hook();
    let args: Vec<String> = std::env::args().collect();
    if args.len() < 2 {
        eprintln!("usage: dltmc <property> [--tier quick|thorough] [--replay file]");
        std::process::exit(2);
    }
    let prop = args[1].clone();
    if prop == "bench" {
        // developer aid: cost of one parse of a prefix-sweep style input
        let mut buf: Vec<u8> = (0..65_575).map(|k| if k % 4 == 3 { 0u8 } else { 0x20 }).collect();
        for (hdr, what) in [([0x20u8, 0, 0x08, 0x01], "no ext, LEN 2049"), ([0x21, 0, 0x08, 0x01], "ext, LEN 2049"), ([0x3F, 0, 0x0F, 0x01], "all flags, LEN 3841"), ([0x20, 0, 0xFF, 0x01], "no ext, LEN 65281")] {
            buf[..4].copy_from_slice(&hdr);
            let t = std::time::Instant::now();
            let n = 200_000;
            let mut ok = 0u64;
            for _ in 0..n {
                if let Ok((_, dlt_core::parse::ParsedMessage::Item(_))) = dlt_core::parse::dlt_message(&buf, None, false) {
                    ok += 1;
                }
            }
            let d1 = t.elapsed().as_nanos() as f64 / n as f64;
            let t = std::time::Instant::now();
            for _ in 0..n {
                let _ = refmodel::decode(&buf, false);
            }
            let d2 = t.elapsed().as_nanos() as f64 / n as f64;
            println!("{:<22} dlt_message {:>9.0} ns (ok {}), reference decode {:>9.0} ns", what, d1, ok, d2);
        }
        return;
    }
    let mut tier = match std::env::var("VERIF_TIER").ok().as_deref() {
        Some("thorough") => Tier::Thorough,
        _ => Tier::Quick,
    };
    let mut replay: Option<serde_json::Value> = None;
    let mut range: Option<(String, u64, u64)> = None;
    let mut triage_file: Option<String> = None;
    let mut i = 2;
    let mut rest: Vec<String> = vec![];
    while i < args.len() {
        match args[i].as_str() {
            "--tier" => {
                tier = match args.get(i + 1).map(|s| s.as_str()) {
                    Some("quick") => Tier::Quick,
                    Some("thorough") => Tier::Thorough,
                    _ => {
                        eprintln!("bad --tier");
                        std::process::exit(2)
                    }
                };
                i += 1;
            }
            "--replay" => {
                let path = args.get(i + 1).expect("--replay <file>");
                let txt = std::fs::read_to_string(path).unwrap_or_else(|e| {
                    eprintln!("cannot read replay file {}: {}", path, e);
                    std::process::exit(2)
                });
                let v: serde_json::Value = serde_json::from_str(&txt).expect("replay file is not JSON");
                if let Some(t) = v["tier"].as_str() {
                    tier = if t == "thorough" { Tier::Thorough } else { Tier::Quick };
                }
                replay = Some(v);
                i += 1;
            }
            "--range" => {
                let fam = args.get(i + 1).expect("--range family lo hi").clone();
                let lo: u64 = args.get(i + 2).and_then(|x| x.parse().ok()).expect("lo");
                let hi: u64 = args.get(i + 3).and_then(|x| x.parse().ok()).expect("hi");
                range = Some((fam, lo, hi));
                i += 3;
            }
            "--triage" => {
                triage_file = Some(args.get(i + 1).expect("--triage <crumbs file>").clone());
                i += 1;
            }
            "--worker" => {
                if prop == "C12" {
                    p12_fibexfault::worker_main();
                }
            }
            other => rest.push(other.to_string()),
        }
        i += 1;
    }
    let level = match prop.as_str() {
        "C12" => "fault_enumeration",
        _ => "model_checking",
    };
    if let Some(f) = triage_file {
        std::process::exit(triage(&prop, tier, &f));
    }
    // replaying a recorded process death: run the case in a child process and report
    if let Some(rp) = &replay {
        if rp["key"].as_str() == Some(DEATH_KEY) {
            let fam = rp["family"].as_str().unwrap_or("").to_string();
            let idx = rp["index"].as_u64().unwrap_or(0);
            let died = child_dies(&prop, tier, &fam, idx, idx + 1);
            if died {
                println!("VIOLATION property={} replay=(replayed)", prop);
                println!("  family={} index={} key={}", fam, idx, DEATH_KEY);
                std::process::exit(1);
            }
            println!("[{}] replay: the recorded case does NOT kill the process on this tree", prop);
            std::process::exit(0);
        }
    }
    let mut ctx = Ctx::new(&prop, tier, level);
    ctx.replay = replay;
    if range.is_some() {
        ctx.range = range;
        // no evidence, no verdict: the parent only looks at whether this process survives
        let _ = std::panic::catch_unwind(std::panic::AssertUnwindSafe(|| run_property(&prop, &ctx)));
        std::process::exit(0);
    }
    let r = std::panic::catch_unwind(std::panic::AssertUnwindSafe(|| {
        run_property(&prop, &ctx);
        ctx.finish()
    }));
    match r {
        Ok(code) => std::process::exit(code),
        Err(_) => {
            // violations recorded by families that completed were each re-executed and confirmed;
            // a harness panic in a later family does not take them back
            if ctx.viol_total.load(std::sync::atomic::Ordering::Relaxed) > 0 {
                eprintln!("MACHINERY NOTE: the harness panicked in a later family (see message above); the verdict rests on the violations confirmed before that");
                if let Ok(code) = std::panic::catch_unwind(std::panic::AssertUnwindSafe(|| ctx.finish())) {
                    if code == 1 {
                        std::process::exit(1);
                    }
                }
            }
            eprintln!("MACHINERY FAILURE: harness panicked (see message above); no verdict");
            std::process::exit(2)
        }
    }
}
