//! C15 -- computed lengths equal serialised lengths; built messages are self-consistent.
use crate::common::*;
use crate::refmodel::*;
use crate::universe::*;
use byteorder::{BigEndian, LittleEndian};
use dlt_core::dlt::*;
use dlt_core::parse::{dlt_message, ParsedMessage};
use serde_json::json;

fn judge_arg_len(a: &RefArg, loc: &mut Local) {
    let ca = arg_to_crate(a);
    loc.evals += 1;
    loc.transitions += 3;
    loc.traces += 1;
    let mut expect = vec![];
    encode_arg(a, true, &mut expect, &mut Sites::default());
    loc.state(fnv64(&expect), true);
    match catch(|| (ca.len(), ca.as_bytes::<BigEndian>().len(), ca.as_bytes::<LittleEndian>().len())) {
        Err(p) => loc.violation("Argument::len/as_bytes panics", format!("len/as_bytes panicked ({}) for {}", p, fp_argument(&ca)), json!({"argument": fp_argument(&ca)})),
        Ok((l, be, le)) => {
            if l != be || l != le || l != expect.len() {
                loc.outcome("len mismatch");
                loc.violation("Argument::len differs from the serialised length", format!("len() = {}, as_bytes::<BE>().len() = {}, as_bytes::<LE>().len() = {}, reference layout {} bytes for {}", l, be, le, expect.len(), fp_argument(&ca)), json!({"argument": fp_argument(&ca)}));
            } else {
                loc.outcome("len equal");
                loc.sample(|| json!({"argument": fp_argument(&ca), "len": l}));
            }
        }
    }
}

/// representable configuration (a message of U): the built message must equal the reference
/// message field for field, measure itself correctly and parse back
fn judge_new(m: &RefMsg, loc: &mut Local) {
    let expect = to_crate(m);
    let conf = config_of(m);
    let sh = expect.storage_header.clone();
    loc.evals += 1;
    loc.traces += 1;
    loc.transitions += 1;
    let details = || json!({"expected": fp(&expect)});
    let built = match catch(|| Message::new(conf, sh)) {
        Ok(b) => b,
        Err(p) => {
            loc.violation("Message::new panics", format!("Message::new panicked ({}) for the configuration of {}", p, fp(&expect)), details());
            return;
        }
    };
    let (bytes, _) = encode(m);
    loc.state(fnv64(&bytes), true);
    let payload_bytes = payload_size(&m.payload, m.big);
    if built.header.payload_length as usize != payload_bytes {
        loc.outcome("payload_length wrong");
        loc.violation("Message::new records a wrong payload length", format!("payload_length = {} but the payload serialises to {} bytes: {}", built.header.payload_length, payload_bytes, fp(&built)), details());
        return;
    }
    if built.header.has_extended_header != m.ext.is_some() || built.extended_header.is_some() != m.ext.is_some() {
        loc.violation("Message::new extended-header flag inconsistent", format!("has_extended_header = {} / extended_header present = {} but info given = {}", built.header.has_extended_header, built.extended_header.is_some(), m.ext.is_some()), details());
        return;
    }
    if let (Some(e), Some(re)) = (&built.extended_header, &m.ext) {
        if e.verbose != re.verbose || e.argument_count != re.noar {
            let kind = match &m.payload {
                RefPayload::NetworkTrace(_) => "Message::new network-trace",
                _ => "Message::new verbose/NOAR wrong",
            };
            loc.outcome("verbose/NOAR wrong");
            loc.violation(kind, format!("Message::new set verbose = {}, argument_count = {}; the payload kind requires verbose = {}, argument_count = {}: {}", e.verbose, e.argument_count, re.verbose, re.noar, fp(&built)), details());
            return;
        }
    }
    if !same_message(&built, &expect) {
        loc.outcome("built differs");
        loc.violation("Message::new builds a different message", format!("built:    {}\n    expected: {}", fp(&built), fp(&expect)), details());
        return;
    }
    loc.transitions += 3;
    match catch(|| (built.byte_len(), built.as_bytes())) {
        Err(p) => loc.violation("byte_len/as_bytes panics on a built message", format!("panicked ({}) for {}", p, fp(&built)), details()),
        Ok((bl, ser)) => {
            let st = if built.storage_header.is_some() { 16 } else { 0 };
            if bl as usize != ser.len() - st {
                loc.outcome("byte_len wrong");
                loc.violation("byte_len differs from the serialisation length", format!("byte_len() = {} but the serialisation without storage header has {} bytes: {}", bl, ser.len() - st, fp(&built)), details());
                return;
            }
            match catch(|| dlt_message(&ser, None, st == 16).map(|(rest, pm)| (rest.len(), pm))) {
                Ok(Ok((0, ParsedMessage::Item(back)))) if same_message(&back, &built) => {
                    loc.outcome("built, measured, parsed back");
                    loc.sample(|| json!({"message": fp(&built), "bytes": hex_short(&ser)}));
                }
                other => {
                    loc.outcome("does not parse back");
                    loc.violation("built message does not parse back to an equal message", format!("built {} serialises to {} which parses to {:?}", fp(&built), hex_short(&ser), other.map(|r| r.map(|(n, pm)| (n, match pm { ParsedMessage::Item(m) => fp(&m), o => format!("{:?}", o) })))), details());
                }
            }
        }
    }
}

/// non-representable configurations: only the length clauses and the extended-header flag
fn judge_new_lengths_only(conf: MessageConfig, loc: &mut Local) {
    loc.evals += 1;
    loc.traces += 1;
    loc.transitions += 3;
    let desc = format!("{:?}", conf).chars().take(400).collect::<String>();
    let info = conf.extended_header_info.is_some();
    let big = conf.endianness == Endianness::Big;
    let pay = conf.payload.clone();
    loc.state(fnv64(desc.as_bytes()), true);
    match catch(|| {
        let b = Message::new(conf, None);
        let ser = b.as_bytes();
        (b.header.payload_length, b.byte_len(), ser.len(), b.header.has_extended_header, b.extended_header.is_some())
    }) {
        Err(p) => loc.violation("Message::new panics", format!("Message::new/as_bytes panicked ({}) for {}", p, desc), json!({"config": desc})),
        Ok((pl, bl, sl, heh, eh)) => {
            // serialised payload length, measured through the public argument/payload writers
            let hdr = sl - pl as usize;
            let expect_pl: usize = match &pay {
                PayloadContent::Verbose(args) => args.iter().map(|a| if big { a.as_bytes::<BigEndian>().len() } else { a.as_bytes::<LittleEndian>().len() }).sum(),
                PayloadContent::NonVerbose(_, d) => 4 + d.len(),
                PayloadContent::ControlMsg(_, d) => 1 + d.len(),
                PayloadContent::NetworkTrace(s) => s.iter().map(|x| 6 + x.len()).sum(),
            };
            if pl as usize != expect_pl || bl as usize != sl || heh != info || eh != info {
                loc.outcome("length clause violated");
                loc.violation("Message::new length clauses violated (non-representable configuration)", format!("payload_length {} (payload serialises to {}), byte_len {} (serialisation {}), has_extended_header {} / present {} (info given {}); headers {} bytes; {}", pl, expect_pl, bl, sl, heh, eh, info, hdr, desc), json!({"config": desc}));
            } else {
                loc.outcome("length clauses hold");
            }
        }
    }
}

fn judge_storage(m: &RefMsg, ts: Option<(u32, u32)>, prior: usize, loc: &mut Local) {
    let mut base = to_crate(m);
    base.storage_header = None;
    loc.evals += 1;
    loc.traces += 1;
    loc.transitions += 2;
    let before = base.as_bytes();
    loc.state(mix(mix(fnv64(&before), prior as u64), ts.map(|t| mix(t.0 as u64, t.1 as u64)).unwrap_or(7)), true);
    // the message may already carry a storage header (re-stamping a parsed or previously stamped
    // message): the result must not depend on it
    let mut b2 = base.clone();
    b2.storage_header = match prior {
        0 => None,
        1 => Some(StorageHeader { timestamp: DltTimeStamp { seconds: 7, microseconds: 8 }, ecu_id: "LOGR".into() }),
        2 => Some(StorageHeader { timestamp: DltTimeStamp { seconds: 0, microseconds: 0 }, ecu_id: "".into() }),
        _ => Some(StorageHeader { timestamp: DltTimeStamp { seconds: u32::MAX, microseconds: 999_999 }, ecu_id: "ECU".into() }),
    };
    match catch(|| b2.add_storage_header(ts.map(|(s, us)| DltTimeStamp { seconds: s, microseconds: us }))) {
        Err(p) => loc.violation("add_storage_header panics", format!("add_storage_header panicked ({}) for {}", p, fp(&base)), json!({"message": fp(&base)})),
        Ok(with) => {
            let ser = with.as_bytes();
            let ecu = m.ecu.clone().unwrap_or_else(|| "ECU".to_string());
            let mut ecu4 = ecu.as_bytes().to_vec();
            ecu4.resize(4, 0);
            let mut ok = ser.len() == before.len() + 16 && &ser[..4] == b"DLT\x01" && ser[12..16] == ecu4[..] && ser[16..] == before[..];
            let rest_same = {
                let mut w = with.clone();
                w.storage_header = None;
                same_message(&w, &base)
            };
            ok &= rest_same;
            match ts {
                Some((s, us)) => ok &= ser[4..8] == s.to_le_bytes() && ser[8..12] == us.to_le_bytes(),
                None => {
                    let us = u32::from_le_bytes([ser[8], ser[9], ser[10], ser[11]]);
                    ok &= us < 1_000_000;
                }
            }
            if ok {
                loc.outcome(if ts.is_some() { "storage header prepended (given time)" } else { "storage header prepended (clock)" });
            } else {
                loc.outcome("storage header wrong");
                loc.violation("add_storage_header does not just prepend the 16-byte header", format!("time {:?}, header ECU {:?}, storage header before the call: variant {} (0 none, 1 LOGR, 2 empty id, 3 ECU): serialisation {} (before: {}); other fields unchanged: {}", ts, m.ecu, prior, hex_short(&ser), hex_short(&before), rest_same), json!({"message": fp(&base)}));
            }
        }
    }
}

pub fn run(ctx: &Ctx) {
    ctx.enable_trace_pass(ctx.tier.pick(20000u64, 200000u64));
    ctx.set_rule("argument lengths: case = argument of A_full (len() vs both serialisations vs the reference layout); constructor: case = MessageConfig derived from a message of U (built message must equal the reference message, measure itself and parse back) or a non-representable configuration (length clauses only); add_storage_header: case = (message, timestamp); valid(): case = (kind, value variant)");
    ctx.assume("add_storage_header(None) reads the wall clock: only structure, ECU id and microseconds < 10^6 are judged for it");
    ctx.assume("configurations with more than 255 arguments (NOAR cannot represent them) are outside 'well-formed' and not visited");
    {
        let args = arg_full(ctx.tier);
        let n = args.len() as u64;
        let args = &args;
        ctx.run_family(Family::new("c15.arg_len", n, format!("every argument of A_full ({} variants)", n), move |i, loc| judge_arg_len(&args[i as usize], loc)));
        let seq = arg_seq_alphabet(Tier::Thorough);
        let ns = seq.len() as u64;
        let seq = &seq;
        ctx.run_family(Family::new("c15.arg_len_seq", ns, "every argument of A_seq (thorough alphabet)", move |i, loc| judge_arg_len(&seq[i as usize], loc)));
    }
    for f in universe(ctx.tier) {
        let gen = &f.gen;
        ctx.run_family(Family::new(format!("c15.new.{}", f.name), f.size, format!("Message::new from the configuration of: {}", f.about), move |i, loc| {
            let m = gen(i);
            judge_new(&m, loc);
        }));
    }
    // non-representable configurations
    {
        let payloads: Vec<RefPayload> = vec![payload_for(true, Some(MSTP_LOG), 0), payload_for(true, Some(MSTP_LOG), 2), payload_for(true, Some(MSTP_NW_TRACE), 0), payload_for(true, Some(MSTP_NW_TRACE), 2), payload_for(false, Some(MSTP_CONTROL), 0), payload_for(false, None, 0), payload_for(true, Some(MSTP_LOG), 1)];
        let exts: Vec<Option<(u8, u8)>> = vec![None, Some((MSTP_LOG, 4)), Some((MSTP_NW_TRACE, 2)), Some((MSTP_CONTROL, 1)), Some((5, 7))];
        let sp = Space::new(&[payloads.len(), exts.len(), 2, 8]);
        let s2 = sp.clone();
        let (payloads, exts) = (&payloads, &exts);
        ctx.run_family(Family::new("c15.new.any_config", sp.size(), "every payload kind x extended-header info {none, log, network trace, control, unknown type} (matching or not) x byte order x optional-field combinations: length clauses and extended-header flag only", move |i, loc| {
            let c = s2.coords(i);
            let conf = MessageConfig {
                version: 1,
                counter: 3,
                endianness: endianness_of(c[2] == 1),
                ecu_id: if c[3] & 1 != 0 { Some("E".into()) } else { None },
                session_id: if c[3] & 2 != 0 { Some(5) } else { None },
                timestamp: if c[3] & 4 != 0 { Some(6) } else { None },
                payload: payload_to_crate(&payloads[c[0]]),
                extended_header_info: exts[c[1]].map(|(t, s)| ExtendedHeaderConfig { message_type: message_type_of(t, s), app_id: "APP".into(), context_id: "CTX".into() }),
            };
            judge_new_lengths_only(conf, loc);
        }));
    }
    // add_storage_header
    {
        let seeds = seed_messages(ctx.tier);
        let idv = ids(Tier::Thorough);
        let times: Vec<Option<(u32, u32)>> = vec![None, Some((0, 0)), Some((1, 999_999)), Some((0x0102_0304, 0x0005_0607)), Some((u32::MAX, u32::MAX)), Some((0x8000_0000, 1_000_000))];
        let sp = Space::new(&[seeds.len(), idv.len() + 1, times.len(), 4]);
        let s2 = sp.clone();
        let (seeds, idv, times) = (&seeds, &idv, &times);
        ctx.run_family(Family::new("c15.add_storage_header", sp.size(), "every seed message x header ECU id {absent, each id of the alphabet} x timestamp {None (clock), 5 given values} x storage header already present before the call {none, id 'LOGR', empty id, id 'ECU'}", move |i, loc| {
            let c = s2.coords(i);
            let mut m = seeds[c[0]].clone();
            m.ecu = if c[1] == 0 { None } else { Some(idv[c[1] - 1].to_string()) };
            judge_storage(&normalize(m), times[c[2]], c[3], loc);
        }));
    }
    // valid()
    {
        let kinds = crate::p18_fixedpoint::kinds();
        let vals: Vec<Value> = vec![Value::Bool(1), Value::U8(1), Value::U16(1), Value::U32(1), Value::U64(1), Value::U128(1), Value::I8(1), Value::I16(1), Value::I32(1), Value::I64(1), Value::I128(1), Value::F32(1.0), Value::F64(1.0), Value::StringVal("s".into()), Value::Raw(vec![1])];
        let sp = Space::new(&[kinds.len(), vals.len()]);
        let s2 = sp.clone();
        let (kinds, vals) = (&kinds, &vals);
        ctx.run_family(Family::new("c15.valid", sp.size(), "every kind x every Value variant: bool / float32 / float64 kinds with another value kind must fail valid(); matching pairs must pass", move |i, loc| {
            let c = s2.coords(i);
            let a = Argument { type_info: TypeInfo { kind: kinds[c[0]].clone(), coding: StringCoding::ASCII, has_variable_info: false, has_trace_info: false }, name: None, unit: None, fixed_point: None, value: vals[c[1]].clone() };
            loc.evals += 1;
            loc.transitions += 1;
            loc.traces += 1;
            let expect: Option<bool> = match (&a.type_info.kind, &a.value) {
                (TypeInfoKind::Bool, Value::Bool(_)) => Some(true),
                (TypeInfoKind::Bool, _) => Some(false),
                (TypeInfoKind::Float(FloatWidth::Width32), Value::F32(_)) => Some(true),
                (TypeInfoKind::Float(FloatWidth::Width32), _) => Some(false),
                (TypeInfoKind::Float(FloatWidth::Width64), Value::F64(_)) => Some(true),
                (TypeInfoKind::Float(FloatWidth::Width64), _) => Some(false),
                _ => None,
            };
            loc.state(i, expect.is_some());
            match (catch(|| a.valid()), expect) {
                (Err(p), _) => loc.violation("Argument::valid panics", format!("valid() panicked ({}) for {:?}", p, a), json!({})),
                (Ok(v), Some(e)) if v != e => loc.violation("Argument::valid wrong for bool/float kinds", format!("valid() = {} for kind {:?} with value {:?}, expected {}", v, a.type_info.kind, a.value, e), json!({})),
                _ => loc.outcome("valid() as stated"),
            }
        }));
    }
}
