//! C01 -- serialise-then-parse returns the identical message and consumes it exactly.
//! Space: every message of U (storage header present -> parsed with `true`, absent -> `false`)
//! x trailing suffixes (all messages: {empty, one byte}; single-argument, header and payload
//! families additionally all 256 one-byte suffixes and the long ones).
use crate::common::*;
use crate::refmodel::*;
use crate::universe::*;
use dlt_core::parse::{dlt_message, DltParseError, ParsedMessage};
use serde_json::json;

pub fn suffixes_small() -> Vec<Vec<u8>> {
    vec![vec![], vec![0x44], b"\r\nDLT\x01".to_vec()]
}
pub fn suffixes_full() -> Vec<Vec<u8>> {
    let mut t: Vec<Vec<u8>> = vec![vec![]];
    for b in 0..=255u8 {
        t.push(vec![b]);
    }
    t.push(b"DLT\x01".to_vec());
    t.push(b"DLT".to_vec());
    t.push(vec![0xFF; 32]);
    // a complete following message (with storage header in front)
    let next = encode(&msg_with(0x04, 1, Some(ext(MSTP_LOG, 4, "NXT", "MSG")), payload_for(true, Some(MSTP_LOG), 2), Some(storage(9, 9, "NX")))).0;
    t.push(next.clone());
    t.push(next[16..].to_vec());
    // a following stored message that is NOT adjacent (padding / a stray line in between): the
    // remainder is exactly the suffix, whatever follows later in it
    for pad in [&b"\0"[..], b"\r\n", b"XYZ", &[0u8; 17][..]] {
        let mut v = pad.to_vec();
        v.extend_from_slice(&next);
        t.push(v);
    }
    t.push(vec![0; 65536]);
    t
}

pub fn describe_err(e: &DltParseError) -> String {
    format!("{:?}", e)
}

pub fn judge(m: &RefMsg, suffix: &[u8], loc: &mut Local) {
    let cm = to_crate(m);
    let with_storage = m.storage.is_some();
    loc.evals += 1;
    loc.transitions += 2;
    loc.traces += 1;
    let ser = match catch(|| cm.as_bytes()) {
        Ok(b) => b,
        Err(p) => {
            loc.outcome("as_bytes panic");
            loc.violation("as_bytes panics", format!("Message::as_bytes panicked ({}) for {}", p, fp(&cm)), json!({"message": fp(&cm)}));
            return;
        }
    };
    let mut input = ser.clone();
    input.extend_from_slice(suffix);
    loc.state(mix(fnv64(&ser), fnv64(suffix)), true);
    let r = catch(|| dlt_message(&input, None, with_storage).map(|(rest, pm)| (rest.len(), rest.as_ptr() as usize, pm)));
    let details = || json!({"message": fp(&cm), "serialised_hex": hex_short(&ser), "suffix_hex": hex_short(suffix), "with_storage_header": with_storage});
    match r {
        Err(p) => {
            loc.outcome("parse panic");
            loc.violation("dlt_message panics on own serialisation", format!("dlt_message panicked ({}) on the serialisation of {}", p, fp(&cm)), details());
        }
        Ok(Err(e)) => {
            loc.outcome("parse error");
            let kind = match &cm.payload {
                dlt_core::dlt::PayloadContent::NetworkTrace(_) if m.big => "network-trace big-endian",
                _ => "serialisation does not parse back",
            };
            loc.violation(kind, format!("parsing the serialisation failed with {} (suffix {} bytes); message {}; bytes {}", describe_err(&e), suffix.len(), fp(&cm), hex_short(&ser)), details());
        }
        Ok(Ok((rest_len, rest_ptr, pm))) => {
            let expected_ptr = input.as_ptr() as usize + ser.len();
            if rest_len != suffix.len() || rest_ptr != expected_ptr {
                loc.outcome("wrong remainder");
                loc.violation("remainder is not the suffix", format!("remainder has {} bytes at offset {}, expected the {}-byte suffix at offset {}; message {}", rest_len, rest_ptr.wrapping_sub(input.as_ptr() as usize), suffix.len(), ser.len(), fp(&cm)), details());
                return;
            }
            match pm {
                ParsedMessage::Item(back) => {
                    if same_message(&back, &cm) {
                        loc.outcome("identical");
                        loc.sample(|| json!({"message": fp(&cm), "bytes": hex_short(&ser), "suffix_len": suffix.len()}));
                    } else {
                        loc.outcome("different message");
                        loc.violation("parsed message differs", format!("parsed back a different message:\n    original: {}\n    parsed:   {}\n    bytes: {}", fp(&cm), fp(&back), hex_short(&ser)), details());
                    }
                }
                other => {
                    loc.outcome("not an item");
                    loc.violation("parse result is not a message", format!("dlt_message returned {:?} for the serialisation of {}", other, fp(&cm)), details());
                }
            }
        }
    }
}

pub fn run(ctx: &Ctx) {
    ctx.enable_trace_pass(ctx.tier.pick(20000u64, 200000u64));
    ctx.set_rule("case = (message of U, trailing suffix); families are complete products of the field alphabets (see families.*.about); a state is a distinct (serialised bytes, suffix) pair; every case is non-trivial (a full serialise+parse round trip)");
    ctx.assume("well-formed messages outside the alphabets (other values, argument sequences longer than the stated depth) are not visited");
    let small = suffixes_small();
    let full = suffixes_full();
    for f in universe(ctx.tier) {
        let use_full = matches!(f.name, "u.htyp" | "u.msin" | "u.nonverbose_control" | "u.network_trace") || (f.name == "u.single_arg");
        // the single-argument family with all suffixes is large: in quick use every 4th message for
        // the full suffix set and all messages for the small one
        let sfx: &Vec<Vec<u8>> = if use_full { &full } else { &small };
        let stride = if f.name == "u.single_arg" { ctx.tier.pick(8u64, 1u64) } else { 1 };
        let n_sfx = sfx.len() as u64;
        let gen = &f.gen;
        if use_full && stride > 1 {
            // all messages x small suffix set first
            let s2 = &small;
            ctx.run_family(Family::new(format!("c01.{}.small_suffixes", f.name), f.size * 3, format!("{} x suffixes {{empty, 0x44, CR LF + storage pattern}}", f.about), move |i, loc| {
                let m = gen(i / 3);
                judge(&m, &s2[(i % 3) as usize], loc);
            }));
        }
        let size = (f.size / stride) * n_sfx;
        ctx.run_family(Family::new(
            format!("c01.{}", f.name),
            size,
            format!("{}{} x {} suffixes{}", f.about, if stride > 1 { format!(" (every {}th message)", stride) } else { String::new() }, n_sfx, if use_full { " (empty, all 256 single bytes, 'DLT\\x01', 'DLT', 32xFF, a following message with/without storage header, a following stored message behind 1-17 padding bytes, 64 KiB zeros)" } else { " (empty, 0x44)" }),
            move |i, loc| {
                let m = gen((i / n_sfx) * stride);
                judge(&m, &sfx[(i % n_sfx) as usize], loc);
            },
        ));
    }
    // suffix-length sweep: the same message followed by EVERY number of trailing bytes 0..=N
    {
        let nmax = ctx.tier.pick(140_000usize, 530_000usize);
        let msgs: Vec<RefMsg> = {
            let seeds = seed_messages(Tier::Quick);
            let mut v: Vec<RefMsg> = vec![seeds[0].clone(), seeds[seeds.len() / 2].clone(), seeds[seeds.len() - 3].clone()];
            let mut st = seeds[5].clone();
            st.storage = Some(storage(1, 2, "ST"));
            v.push(st);
            v.push(len_sweep_message(4, 300, false));
            v.push(len_sweep_message(0, 5000, true));
            v
        };
        let enc: Vec<(Vec<u8>, dlt_core::dlt::Message, bool)> = msgs
            .iter()
            .map(|m| {
                let cm = to_crate(m);
                let mut b = cm.as_bytes();
                let l = b.len();
                b.extend((0..nmax + 8).map(|k| if k % 7 == 3 { 0u8 } else { (k * 31 + l) as u8 }));
                (b, cm, m.storage.is_some())
            })
            .collect();
        let lens: Vec<usize> = msgs.iter().map(|m| to_crate(m).as_bytes().len()).collect();
        let sp = Space::new(&[nmax + 1, enc.len()]);
        let s2 = sp.clone();
        let (enc, lens) = (&enc, &lens);
        ctx.run_family(Family::new("c01.suffix_length_sweep", sp.size(), format!("{} messages (verbose, non-verbose, stored, 300-byte and 5000-byte) each followed by EVERY number of trailing bytes 0..={} (shared buffer; the total buffer length crosses every multiple of 64 KiB)", enc.len(), nmax), move |i, loc| {
            let c = s2.coords(i);
            let (buf, cm, st) = &enc[c[1]];
            let ml = lens[c[1]];
            let input = &buf[..ml + c[0]];
            loc.evals += 1;
            loc.transitions += 1;
            loc.traces += 1;
            loc.state(i, c[0] > 0);
            match catch(|| dlt_message(input, None, *st).map(|(rest, pm)| (rest.len(), rest.as_ptr() as usize, pm))) {
                Ok(Ok((rl, rp, ParsedMessage::Item(back)))) if rl == c[0] && rp == input.as_ptr() as usize + ml && same_message(&back, cm) => loc.outcome("identical"),
                other => {
                    loc.outcome("suffix changes the result");
                    loc.violation("trailing bytes influence the result", format!("message {} followed by {} trailing bytes (buffer of {} bytes): {:?}", hex_short(&buf[..ml]), c[0], input.len(), other.map(|r| r.map(|(n, _, pm)| (n, format!("{:?}", pm).chars().take(80).collect::<String>())))), json!({"message_hex": hex_short(&buf[..ml]), "suffix_len": c[0]}));
                }
            }
        }).distinct());
    }
}
