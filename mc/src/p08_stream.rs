//! C08 -- the async reader delivers what the blocking reader delivers, on any schedule.
//! Every execution drives the real DltStreamReader over a scripted AsyncRead; every poll_read
//! answer (Ready(k) for a menu of k, Pending) is a choice point.  The future is polled by a
//! hand-rolled loop with a no-op waker: each Pending leads to exactly one more poll.
use crate::common::*;
use crate::explore::*;
use crate::p07_reader::*;
use dlt_core::parse::ParsedMessage;
use dlt_core::stream::{read_message as read_message_async, DltStreamReader};
use futures::task::noop_waker;
use serde_json::json;
use std::cell::RefCell;
use std::future::Future;
use std::rc::Rc;
use std::task::{Context, Poll};

const POLL_BUDGET: u32 = 200_000;
const O_LIVELOCK: u8 = 11;

fn same_parsed(a: &ParsedMessage, b: &ParsedMessage) -> bool {
    match (a, b) {
        (ParsedMessage::Item(x), ParsedMessage::Item(y)) => crate::refmodel::same_message(x, y),
        _ => a == b,
    }
}

pub fn drive_async(stream: &Rc<Vec<u8>>, with_storage: bool, exp: &Expected, ch: &Shared, fixed: Option<Vec<u32>>, full_menu_limit: usize, big_buffers: bool) -> Vec<u8> {
    let src = ScriptedRead { data: stream.clone(), off: 0, ch: ch.clone(), full_menu_limit, fixed, fixed_pos: 0 };
    let mut reader = if big_buffers { DltStreamReader::new(src, with_storage) } else { DltStreamReader::with_capacity(CAP, CAP, src, with_storage) };
    // counting waker: a Pending without any wake-up since the poll started is a lost wake-up
    let wakes = std::sync::Arc::new(crate::bulk::CountWaker::default());
    let waker = futures::task::waker(wakes.clone());
    let mut cx = Context::from_waker(&waker);
    let mut obs = Vec::with_capacity(exp.pieces.len() + 1);
    for i in 0..=exp.pieces.len() {
        let r = catch(|| {
            let mut fut = Box::pin(read_message_async(&mut reader, None));
            let mut polls = 0u32;
            loop {
                let before = wakes.0.load(std::sync::atomic::Ordering::Relaxed);
                match fut.as_mut().poll(&mut cx) {
                    Poll::Ready(r) => return Some(r),
                    Poll::Pending => {
                        if wakes.0.load(std::sync::atomic::Ordering::Relaxed) == before {
                            return None; // no wake-up arranged: would hang a wake-driven executor
                        }
                        polls += 1;
                        if polls > POLL_BUDGET {
                            return None;
                        }
                    }
                }
            }
        });
        let code = match (&r, exp.pieces.get(i)) {
            (Err(_), _) => O_PANIC,
            (Ok(None), _) => O_LIVELOCK,
            (Ok(Some(Ok(Some(pm)))), Some(Ok(e))) => {
                if same_parsed(pm, e) {
                    if matches!(pm, ParsedMessage::Item(_)) {
                        O_ITEM_OK
                    } else {
                        O_OTHER_OK
                    }
                } else {
                    O_ITEM_DIFF
                }
            }
            (Ok(Some(Ok(Some(_)))), _) => O_ITEM_DIFF,
            (Ok(Some(Ok(None))), _) => O_NONE,
            (Ok(Some(Err(e))), _) => err_code(e),
        };
        obs.push(code);
        ch.borrow_mut().emitted = (i + 1) as u32;
        if code == O_NONE || code == O_PANIC || code == O_LIVELOCK {
            break;
        }
        if let Some(Ok(_)) = exp.pieces.get(i) {
            if code != O_ITEM_OK && code != O_OTHER_OK {
                break;
            }
        }
    }
    obs
}

fn name(c: u8) -> &'static str {
    if c == O_LIVELOCK {
        "POLL BUDGET EXHAUSTED"
    } else {
        code_name(c)
    }
}

struct Ref {
    exp: Expected,
    blocking: Vec<u8>,
}
fn reference(spec: &StreamSpec) -> Ref {
    let exp = oracle(&spec.bytes, spec.storage);
    let data = Rc::new(spec.bytes.clone());
    let ch: Shared = Rc::new(RefCell::new(Chooser::default()));
    let blocking = drive_blocking(&data, spec.storage, &exp, &ch, Some(vec![]), 0, false);
    Ref { exp, blocking }
}

fn check(spec: &StreamSpec, r: &Ref, obs: &[u8], schedule: String, loc: &mut Local) {
    let bad = if obs.contains(&O_PANIC) {
        Some(("async reader panics", "the async reader panicked".to_string()))
    } else if obs.contains(&O_LIVELOCK) {
        Some(("async reader never completes", format!("a read_message future returned Pending without arranging a wake-up, or was still pending after {} polls", POLL_BUDGET)))
    } else if obs != r.blocking.as_slice() {
        Some(("async reader differs from the blocking reader", format!("async results {:?} but the blocking reader gives {:?}", obs.iter().map(|c| name(*c)).collect::<Vec<_>>(), r.blocking.iter().map(|c| name(*c)).collect::<Vec<_>>())))
    } else {
        disagreement(obs, &r.exp).map(|w| ("async reader differs from cutting the stream", w))
    };
    if let Some((key, why)) = bad {
        let key = if r.exp.terminal == Terminal::ShortLen && obs.contains(&O_PANIC) { "declared length < 4" } else { key };
        loc.violation(
            key,
            format!("{}\n    stream ({} bytes, {}): {}\n    schedule: {}\n    async:    {:?}\n    blocking: {:?}", why, spec.bytes.len(), spec.what, hex_short(&spec.bytes), schedule, obs.iter().map(|c| name(*c)).collect::<Vec<_>>(), r.blocking.iter().map(|c| name(*c)).collect::<Vec<_>>()),
            json!({"stream_hex": hex_short(&spec.bytes), "with_storage_header": spec.storage, "schedule": schedule}),
        );
    }
}

fn run_fixed(spec: &StreamSpec, data: &Rc<Vec<u8>>, r: &Ref, sched: Vec<u32>, loc: &mut Local) {
    let ch: Shared = Rc::new(RefCell::new(Chooser::default()));
    let sdesc = format!("fixed poll results {:?} (k = Ready(k bytes), 0 = Pending), then everything", sched);
    let obs = drive_async(data, spec.storage, &r.exp, &ch, Some(sched), 0, false);
    loc.evals += 1;
    loc.traces += 1;
    let c = ch.borrow();
    loc.transitions += c.boundaries.len() as u64 + c.pendings as u64;
    classify_boundaries(&c, &r.exp, spec.storage, loc);
    loc.sample(|| json!({"stream": hex_short(&spec.bytes), "what": spec.what, "schedule": sdesc, "async_results": obs.iter().map(|c| name(*c)).collect::<Vec<_>>(), "blocking_results": r.blocking.iter().map(|c| name(*c)).collect::<Vec<_>>()}));
    check(spec, r, &obs, sdesc, loc);
}

fn run_explore(spec: &StreamSpec, bound: u32, full_menu_limit: usize, max_exec: u64, big_buffers: bool, loc: &mut Local) {
    let data = Rc::new(spec.bytes.clone());
    let r = reference(spec);
    let sid = fnv64(&spec.bytes) ^ spec.storage as u64;
    let mut viols: Vec<(Vec<u8>, String)> = vec![];
    let mut states: Vec<u64> = vec![];
    let mut trans = 0u64;
    let mut tallies: Vec<Chooser> = vec![];
    let (count, capped) = {
        let mut run = |prefix: &[u32]| {
            let ch: Shared = Rc::new(RefCell::new(Chooser { prefix: prefix.to_vec(), ..Default::default() }));
            let obs = drive_async(&data, spec.storage, &r.exp, &ch, None, full_menu_limit, big_buffers);
            let c = Rc::try_unwrap(ch).map(|r| r.into_inner()).unwrap_or_default();
            (c, obs)
        };
        let mut visit = |ex: &Execution<Vec<u8>>, devs: u32| {
            trans += ex.choices.len() as u64;
            for (i, t) in ex.chooser.trace.iter().enumerate() {
                let d = ex.choices[..i].iter().filter(|c| **c != 0).count() as u64;
                states.push(mix(sid, mix(t.2 as u64, mix(t.3 as u64, d))));
            }
            let bad = ex.observation != r.blocking || disagreement(&ex.observation, &r.exp).is_some();
            if bad && viols.len() < 3 {
                viols.push((ex.observation.clone(), format!("choices {:?} (0 = Ready(all that is asked for); k = k-th alternative size; last option = Pending) with {} deviation(s); poll results ended at offsets {:?}, {} Pending", ex.choices, devs, ex.chooser.boundaries, ex.chooser.pendings)));
            }
            if tallies.len() < 4096 {
                tallies.push(Chooser { boundaries: ex.chooser.boundaries.clone(), interrupts: 0, pendings: ex.chooser.pendings, ..Default::default() });
            }
        };
        explore(bound, max_exec, &mut run, &mut visit)
    };
    loc.evals += count;
    loc.traces += count;
    loc.transitions += trans;
    for s in states {
        loc.state(s, true);
    }
    for t in &tallies {
        classify_boundaries(t, &r.exp, spec.storage, loc);
    }
    if capped {
        loc.outcome("streams whose exploration hit the execution cap");
    }
    loc.sample(|| json!({"stream": hex_short(&spec.bytes), "what": spec.what, "executions": count, "deviation_bound": bound, "blocking_results": r.blocking.iter().map(|c| name(*c)).collect::<Vec<_>>()}));
    for (obs, sched) in viols {
        check(spec, &r, &obs, sched, loc);
    }
}

pub fn run(ctx: &Ctx) {
    ctx.enable_trace_pass(ctx.tier.pick(3000u64, 30000u64));
    ctx.set_rule("case = (byte stream, schedule of poll_read results); streams as in C07 (message sequences, truncations, hostile length fields); schedules: every choice sequence with at most d deviations over {Ready(k) for the menu of k, Pending}, every uniform chunk size alone and with a Pending before every read, ALL compositions for short streams (alone and with a single Pending at every position); oracle = the blocking reader on the same bytes (default schedule) and the C07 cutter; a state is (stream, bytes delivered, messages emitted, deviations used) at a choice point");
    ctx.assume("the harness re-polls after every Pending (the source wakes the waker before returning Pending): state surviving pending polls and arbitrary chunking is checked, not wake-up registration, which is the source's duty");
    ctx.assume("with_capacity(65551, 65551, ..) for bulk exploration (futures' BufReader zero-fills its buffer: 480 us per `new`); a d<=1 subset uses DltStreamReader::new");
    crate::bulk::run_bulk_families(ctx, "c08", true);
    let bound = ctx.tier.pick(2u32, 3u32);
    ctx.put("deviation_bound_completed", json!(bound));
    {
        let specs = sequence_streams(ctx.tier.pick(2, 3), true);
        let n = specs.len() as u64;
        let specs = &specs;
        ctx.run_family(Family::new("c08.sequences.deviations", n, format!("all sequences of 1..={} messages over the C07 alphabet x storage mode; every choice sequence with <= {} deviations", ctx.tier.pick(2, 3), bound), move |i, loc| {
            run_explore(&specs[i as usize], bound, 64, 3_000_000, false, loc);
        }).chunk(1));
        ctx.run_family(Family::new("c08.sequences.uniform", n, "the same streams under every uniform schedule 'Ready(at most c bytes)' for c = 1..=min(n,70) and the boundary set, each alone, with Pending before EVERY read, and (streams <= 80 bytes) with a single Pending at every position", move |i, loc| {
            let spec = &specs[i as usize];
            let data = Rc::new(spec.bytes.clone());
            let r = reference(spec);
            let n = spec.bytes.len();
            let mut cs: Vec<usize> = (1..=n.min(70)).collect();
            cs.extend([255usize, 256, 297, 298, 299, 314, n.saturating_sub(1), n].iter().filter(|c| **c > 70 && **c <= n));
            loc.state(fnv64(&spec.bytes) ^ 0x55 ^ spec.storage as u64, true);
            for c in cs {
                let k = (n + c - 1) / c;
                let sched: Vec<u32> = vec![c as u32; k];
                run_fixed(spec, &data, &r, sched.clone(), loc);
                let mut every = Vec::with_capacity(2 * k + 1);
                for _ in 0..k {
                    every.push(0);
                    every.push(c as u32);
                }
                every.push(0);
                run_fixed(spec, &data, &r, every, loc);
                if n <= 80 {
                    for p in 0..=k {
                        let mut s2 = sched.clone();
                        s2.insert(p, 0);
                        run_fixed(spec, &data, &r, s2, loc);
                    }
                }
            }
        }).chunk(1));
    }
    {
        let specs: Vec<StreamSpec> = sequence_streams(2, false).into_iter().filter(|s| s.bytes.len() <= 90).collect();
        let mut cases: Vec<(usize, usize)> = vec![];
        for (i, s) in specs.iter().enumerate() {
            for cut in 0..s.bytes.len() {
                cases.push((i, cut));
            }
        }
        let (specs, cases) = (&specs, &cases);
        ctx.run_family(Family::new("c08.truncations", cases.len() as u64, format!("every truncation of the {} sequence streams of at most 90 bytes; every choice sequence with <= 1 deviation plus byte-at-a-time with Pending before every read", specs.len()), move |i, loc| {
            let (si, cut) = cases[i as usize];
            let spec = StreamSpec { bytes: specs[si].bytes[..cut].to_vec(), storage: specs[si].storage, what: format!("{} cut at {}", specs[si].what, cut) };
            run_explore(&spec, 1, 128, 1_000_000, false, loc);
            let data = Rc::new(spec.bytes.clone());
            let r = reference(&spec);
            let mut every = vec![];
            for _ in 0..cut {
                every.push(0);
                every.push(1);
            }
            run_fixed(&spec, &data, &r, every, loc);
        }));
    }
    {
        let specs = hostile_streams();
        let n = specs.len() as u64;
        let specs = &specs;
        ctx.run_family(Family::new("c08.hostile", n, format!("hostile length fields (as C07); every choice sequence with <= {} deviations", bound), move |i, loc| {
            run_explore(&specs[i as usize], bound, 64, 2_000_000, false, loc);
        }).chunk(1));
    }
    {
        let max_n = ctx.tier.pick(14usize, 18usize);
        let specs: Vec<StreamSpec> = sequence_streams(3, false).into_iter().chain(hostile_streams()).filter(|s| s.bytes.len() >= 2 && s.bytes.len() <= max_n).collect();
        let mut bounds = vec![];
        let mut total = 0u64;
        for s in &specs {
            total += 1u64 << (s.bytes.len() - 1);
            bounds.push(total);
        }
        let (specs, bounds) = (&specs, &bounds);
        ctx.run_family(Family::new("c08.compositions", total, format!("ALL 2^(n-1) compositions of the stream into Ready(k) results for the {} streams of 2..={} bytes, each alone, with Pending before every read, and (n <= 12) with a single Pending at every position", specs.len(), max_n), move |i, loc| {
            let s = bounds.partition_point(|b| *b <= i);
            let mask = if s > 0 { i - bounds[s - 1] } else { i };
            let spec = &specs[s];
            let data = Rc::new(spec.bytes.clone());
            let r = reference(spec);
            let comp = composition(spec.bytes.len(), mask);
            loc.state(mix(fnv64(&spec.bytes) ^ spec.storage as u64, mask), true);
            run_fixed(spec, &data, &r, comp.clone(), loc);
            let mut every = vec![];
            for c in &comp {
                every.push(0);
                every.push(*c);
            }
            every.push(0);
            run_fixed(spec, &data, &r, every, loc);
            if spec.bytes.len() <= 12 {
                for p in 0..=comp.len() {
                    let mut c2 = comp.clone();
                    c2.insert(p, 0);
                    run_fixed(spec, &data, &r, c2, loc);
                }
            }
        }));
    }
    {
        let subset: Vec<StreamSpec> = sequence_streams(2, false).into_iter().step_by(ctx.tier.pick(9, 3)).collect();
        let m = subset.len() as u64;
        let subset = &subset;
        ctx.run_family(Family::new("c08.default_constructor", m, "DltStreamReader::new (10 MiB buffers) on a subset of the sequence streams: every choice sequence with <= 1 deviation over the boundary-set menu", move |i, loc| {
            run_explore(&subset[i as usize], 1, 8, 200, true, loc);
        }).chunk(1));
        let big = {
            let mut v = crate::refmodel::encode(&crate::universe::msg_with(0x00, 1, None, crate::refmodel::RefPayload::NonVerbose(7, vec![0xA5; 65_535 - 8]), None)).0;
            v.extend_from_slice(&crate::refmodel::encode(&message_alphabet()[0]).0);
            v
        };
        let specs = vec![
            StreamSpec { bytes: big.clone(), storage: false, what: "a 65535-byte message followed by an 8-byte message".into() },
            StreamSpec { bytes: with_storage(big[..65_535].to_vec()).into_iter().chain(with_storage(big[65_535..].to_vec())).collect(), storage: true, what: "a 65535-byte message followed by an 8-byte message, storage headers".into() },
        ];
        let specs = &specs;
        ctx.run_family(Family::new("c08.maximal", 2, "a maximal (65535-byte) message followed by a short one, with and without storage headers; boundary-set menu, every choice sequence with <= 1 deviation", move |i, loc| {
            run_explore(&specs[i as usize], 1, 64, 100_000, false, loc);
        }).chunk(1));
    }
}
