//! Byte-string input spaces for the decode-side properties (C02 decode, C03, C04, C16):
//!   (1) canonical encodings of U, (2) an enumerated dialect universe, (3) deviation-bounded
//!   neighbourhoods (d = 1 complete, d = 2 over structural sites) of a seed set, (4) a
//!   header-field exhaustive family, (5) all short byte strings over small alphabets,
//!   (6) concatenations, (7) large inputs.
//! Every family is index-addressable: `gen(i)` returns input i.

use crate::common::{Space, Tier};
use crate::refmodel::*;
use crate::universe::*;

pub struct ByteFamily {
    pub name: String,
    pub about: String,
    pub size: u64,
    pub gen: Box<dyn Fn(u64) -> Vec<u8> + Sync + Send>,
}

fn enc(m: &RefMsg) -> Vec<u8> {
    encode(m).0
}

/// bytes the parser compares against: flag bytes, small lengths, pattern bytes
pub const ALPHA8: [u8; 8] = [0x00, 0x01, 0x04, 0x08, 0x10, 0x21, 0x23, 0xFF];
pub const ALPHA8_STORAGE: [u8; 8] = [b'D', b'L', b'T', 0x01, 0x00, 0x20, 0x08, 0xFF];
pub const GRID16: [u8; 14] = [0x00, 0x01, 0x02, 0x03, 0x04, 0x05, 0x08, 0x10, 0x20, 0x40, 0x80, 0x7F, 0xFF, 0xFE];
pub const INSERT_VALUES: [u8; 4] = [0x00, 0x01, 0xFF, 0x44];

/// all strings of length 0..=max_len over `alpha`
pub fn strings_over(alpha: &'static [u8], max_len: u32, name: &str) -> ByteFamily {
    let n = alpha.len() as u64;
    let mut bounds = vec![];
    let mut total = 0u64;
    for l in 0..=max_len {
        total += n.pow(l);
        bounds.push(total);
    }
    ByteFamily {
        name: name.to_string(),
        about: format!("all byte strings of length 0..={} over the {}-symbol alphabet {:02x?}", max_len, n, alpha),
        size: total,
        gen: Box::new(move |i| {
            let mut l = 0usize;
            while i >= bounds[l] {
                l += 1;
            }
            let mut j = if l > 0 { i - bounds[l - 1] } else { i };
            let mut v = Vec::with_capacity(l);
            for _ in 0..l {
                v.push(alpha[(j % n) as usize]);
                j /= n;
            }
            v
        }),
    }
}

static ALL256: [u8; 256] = {
    let mut a = [0u8; 256];
    let mut i = 0;
    while i < 256 {
        a[i] = i as u8;
        i += 1;
    }
    a
};

/// Per-seed mutation space, d = 1: every substitution (pos x 256), every truncation, every
/// 1-byte deletion, 1-byte insertions of INSERT_VALUES at every position.
fn d1_size(len: usize) -> u64 {
    (len * 256 + (len + 1) + len + (len + 1) * INSERT_VALUES.len()) as u64
}
fn d1_apply(seed: &[u8], mut j: u64) -> Vec<u8> {
    let len = seed.len() as u64;
    if j < len * 256 {
        let mut v = seed.to_vec();
        v[(j / 256) as usize] = (j % 256) as u8;
        return v;
    }
    j -= len * 256;
    if j <= len {
        return seed[..j as usize].to_vec();
    }
    j -= len + 1;
    if j < len {
        let mut v = seed.to_vec();
        v.remove(j as usize);
        return v;
    }
    j -= len;
    let pos = (j / INSERT_VALUES.len() as u64) as usize;
    let mut v = seed.to_vec();
    v.insert(pos, INSERT_VALUES[(j % INSERT_VALUES.len() as u64) as usize]);
    v
}

pub fn neighbourhood_d1(seeds: Vec<Vec<u8>>, name: &str) -> ByteFamily {
    let mut bounds = vec![];
    let mut total = 0u64;
    for s in &seeds {
        total += d1_size(s.len());
        bounds.push(total);
    }
    ByteFamily {
        name: name.to_string(),
        about: format!("d=1 neighbourhood of {} seed encodings: every position x all 256 values, every truncation, every 1-byte deletion, insertion of {:02x?} at every position", seeds.len(), INSERT_VALUES),
        size: total,
        gen: Box::new(move |i| {
            let s = bounds.partition_point(|b| *b <= i);
            let j = if s > 0 { i - bounds[s - 1] } else { i };
            d1_apply(&seeds[s], j)
        }),
    }
}

/// structural byte positions of an encoding: every byte of every site
fn site_positions(sites: &Sites) -> Vec<usize> {
    let mut v = vec![];
    for (off, len, _) in &sites.sites {
        for k in 0..*len {
            v.push(off + k);
        }
    }
    v.sort_unstable();
    v.dedup();
    v
}

pub fn neighbourhood_d2(seeds: Vec<(Vec<u8>, Vec<usize>)>, name: &str) -> ByteFamily {
    // per seed: pairs (p<q) of structural positions x 16 x 16 values (14 fixed + orig+1 + orig-1)
    let mut bounds = vec![];
    let mut total = 0u64;
    for (_, pos) in &seeds {
        let k = pos.len() as u64;
        total += k * (k.saturating_sub(1)) / 2 * 256;
        bounds.push(total);
    }
    let nseeds = seeds.len();
    ByteFamily {
        name: name.to_string(),
        about: format!("d=2 neighbourhood of {} seed encodings: every pair of structural byte positions (length fields, flag bytes, type-info words, counts, ids) x a 16x16 value grid ({:02x?}, original+1, original-1)", nseeds, GRID16),
        size: total,
        gen: Box::new(move |i| {
            let s = bounds.partition_point(|b| *b <= i);
            let mut j = if s > 0 { i - bounds[s - 1] } else { i };
            let (seed, pos) = &seeds[s];
            let k = pos.len() as u64;
            let vals = j % 256;
            j /= 256;
            // decode pair index j into (a<b)
            let mut a = 0u64;
            let mut rem = j;
            while rem >= k - 1 - a {
                rem -= k - 1 - a;
                a += 1;
            }
            let b = a + 1 + rem;
            let pick = |orig: u8, code: u64| -> u8 {
                match code {
                    0..=13 => GRID16[code as usize],
                    14 => orig.wrapping_add(1),
                    _ => orig.wrapping_sub(1),
                }
            };
            let mut v = seed.clone();
            let (pa, pb) = (pos[a as usize], pos[b as usize]);
            v[pa] = pick(seed[pa], vals % 16);
            v[pb] = pick(seed[pb], vals / 16);
            v
        }),
    }
}

/// Patch helper for the dialect universe: canonical encoding of `m` with a closure applied.
fn patched(m: &RefMsg, f: impl Fn(&mut Vec<u8>, &Sites)) -> Vec<u8> {
    let (mut b, s) = encode(m);
    f(&mut b, &s);
    b
}
fn site(s: &Sites, label: &str, nth: usize) -> (usize, usize) {
    let (o, l, _) = s.sites.iter().filter(|x| x.2 == label).nth(nth).unwrap_or_else(|| panic!("no site {}", label));
    (*o, *l)
}
fn set_len(b: &mut [u8], base: usize, len: usize) {
    b[base + 2] = (len >> 8) as u8;
    b[base + 3] = len as u8;
}

/// The dialect universe: encodings real ECUs emit or a sloppy encoder could produce.
pub fn dialect(tier: Tier) -> Vec<ByteFamily> {
    let mut fams = vec![];
    let kinds = all_kinds();
    // (a) type-info dialect: every kind x TYLE 0..15 x reserved-bit patterns x SCOD x FIXP/VARI/TRAI/STRU/ARAY bits
    {
        let high: Vec<u32> = vec![0, 1 << 14, 1 << 18, 1 << 31, 0xFFFC_0000, 0xFFFC_4000, 1 << 8, 1 << 12];
        let sp = Space::new(&[kinds.len(), 16, high.len(), 8, 2, 2]);
        let s2 = sp.clone();
        let kinds2 = kinds.clone();
        fams.push(ByteFamily {
            name: "dialect.type_info".into(),
            about: "one-argument verbose message of every kind with its type-info word rewritten: TYLE 0..15 x {0, STRU, bit18, bit31, all reserved, reserved+STRU, ARAY, FIXP} x SCOD 0..7 x VARI-bit flipped or not x byte order; the argument data stays as encoded".into(),
            size: sp.size(),
            gen: Box::new(move |i| {
                let c = s2.coords(i);
                let k = kinds2[c[0]];
                let big = c[5] == 1;
                let a = mk_arg(k, None, 0, false, default_value(k), None);
                let m = msg_with(if big { 0x02 } else { 0 }, 1, Some(ext(MSTP_LOG, 4, "APP", "CTX")), RefPayload::Verbose(vec![a.clone()]), None);
                let w0 = type_info_word(&a);
                let mut w = (w0 & !0xF & !(7 << 15)) | c[1] as u32 | high[c[2]] | ((c[3] as u32) << 15);
                if c[4] == 1 {
                    w ^= TI_VARI;
                }
                patched(&m, |b, s| {
                    let (o, _) = site(s, "type_info", 0);
                    let bytes = if big { w.to_be_bytes() } else { w.to_le_bytes() };
                    b[o..o + 4].copy_from_slice(&bytes);
                })
            }),
        });
    }
    // (b) ids: all 4-byte strings over an 8-symbol alphabet in each id position
    {
        static IDA: [u8; 8] = [0x00, b'a', 0xC3, 0xA9, 0xE2, 0x82, 0xAC, 0xFF];
        let sp = Space::new(&[4096, 4]);
        let s2 = sp.clone();
        fams.push(ByteFamily {
            name: "dialect.ids".into(),
            about: "all 4096 four-byte strings over {00,'a',C3,A9,E2,82,AC,FF} (interior NUL, truncated and invalid UTF-8) in each id position: storage ECU, header ECU, APID, CTID".into(),
            size: sp.size(),
            gen: Box::new(move |i| {
                let c = s2.coords(i);
                let m = msg_with(0x04, 1, Some(ext(MSTP_LOG, 4, "APP", "CTX")), payload_for(true, Some(MSTP_LOG), 0), Some(storage(1, 2, "ECU")));
                let label = ["storage_ecu", "ecu", "apid", "ctid"][c[1]];
                patched(&m, |b, s| {
                    let (o, _) = site(s, label, 0);
                    let mut j = c[0];
                    for k in 0..4 {
                        b[o + k] = IDA[j % 8];
                        j /= 8;
                    }
                })
            }),
        });
    }
    // (c) string / name / unit contents: all strings of length <= 3 over the alphabet as the data of
    //     a string argument, a name and a unit (no terminator, early NUL, invalid UTF-8)
    {
        static SA: [u8; 6] = [0x00, b'a', 0xC3, 0xA9, 0xE2, 0xFF];
        let per = 1 + 6 + 36 + 216;
        let sp = Space::new(&[per, 4, 2]);
        let s2 = sp.clone();
        fams.push(ByteFamily {
            name: "dialect.strings".into(),
            about: "all strings of length 0..=3 over {00,'a',C3,A9,E2,FF} written (with exact length prefix, no forced terminator) as string value / bool name / numeric name / numeric unit x byte order".into(),
            size: sp.size() as u64,
            gen: Box::new(move |i| {
                let c = s2.coords(i);
                let mut j = c[0];
                let mut l = 0;
                let mut acc = 1;
                while j >= acc {
                    j -= acc;
                    l += 1;
                    acc *= 6;
                }
                let mut content = vec![];
                for _ in 0..l {
                    content.push(SA[j % 6]);
                    j /= 6;
                }
                let big = c[2] == 1;
                // build payload by hand with the reference primitives
                let mut p = vec![];
                let put16 = |p: &mut Vec<u8>, v: usize| {
                    if big {
                        p.extend_from_slice(&(v as u16).to_be_bytes())
                    } else {
                        p.extend_from_slice(&(v as u16).to_le_bytes())
                    }
                };
                let put32 = |p: &mut Vec<u8>, v: u32| {
                    if big {
                        p.extend_from_slice(&v.to_be_bytes())
                    } else {
                        p.extend_from_slice(&v.to_le_bytes())
                    }
                };
                match c[1] {
                    0 => {
                        put32(&mut p, TI_STRG | (1 << 15));
                        put16(&mut p, content.len());
                        p.extend_from_slice(&content);
                    }
                    1 => {
                        put32(&mut p, TI_BOOL | TI_VARI);
                        put16(&mut p, content.len());
                        p.extend_from_slice(&content);
                        p.push(1);
                    }
                    2 => {
                        put32(&mut p, TI_UINT | 2 | TI_VARI);
                        put16(&mut p, content.len());
                        put16(&mut p, 2);
                        p.extend_from_slice(&content);
                        p.extend_from_slice(b"u\0");
                        p.extend_from_slice(&[1, 2]);
                    }
                    _ => {
                        put32(&mut p, TI_SINT | 3 | TI_VARI);
                        put16(&mut p, 2);
                        put16(&mut p, content.len());
                        p.extend_from_slice(b"n\0");
                        p.extend_from_slice(&content);
                        p.extend_from_slice(&[1, 2, 3, 4]);
                    }
                }
                let m = msg_with(if big { 0x02 } else { 0 }, 1, Some(ext(MSTP_LOG, 4, "APP", "CTX")), RefPayload::Verbose(vec![]), None);
                let mut b = enc(&m);
                b[5] = 1; // NOAR
                b.extend_from_slice(&p);
                let n = b.len();
                set_len(&mut b, 0, n);
                b
            }),
        });
    }
    // (d) NOAR / LEN disagreement: messages with k arguments present, NOAR in 0..=k+2, LEN declaring
    //     -3..+3 bytes around the real end (extra bytes are supplied after the message)
    {
        let alpha = arg_seq_alphabet(Tier::Quick);
        let na = alpha.len();
        let sp = Space::new(&[na, na + 1, 5, 7, 2, 2]);
        let s2 = sp.clone();
        fams.push(ByteFamily {
            name: "dialect.noar_len".into(),
            about: format!("verbose messages with 1-2 arguments over A_seq ({} symbols, second may be absent) x NOAR 0..=4 x declared LEN = real end -3..=+3 x byte order x network-trace/log type; 4 spare bytes follow", na),
            size: sp.size(),
            gen: Box::new(move |i| {
                let c = s2.coords(i);
                let mut args = vec![alpha[c[0]].clone()];
                if c[1] < na {
                    args.push(alpha[c[1]].clone());
                }
                let big = c[4] == 1;
                let mstp = if c[5] == 1 { MSTP_NW_TRACE } else { MSTP_LOG };
                // build as log message (normalize insists on payload kinds), then patch MSIN
                let m = msg_with(if big { 0x02 } else { 0 }, 1, Some(ext(MSTP_LOG, 4, "APP", "CTX")), RefPayload::Verbose(args), None);
                let mut b = enc(&m);
                b[4] = (b[4] & 0xF1) | (mstp << 1);
                b[5] = c[2] as u8;
                let real = b.len();
                b.extend_from_slice(&[0xEE, 0x00, 0x3D, 0xEE]);
                let declared = (real as i64 + c[3] as i64 - 3) as usize;
                set_len(&mut b, 0, declared);
                b
            }),
        });
    }
    // (d2) verbose network-trace messages whose arguments are not all raw data: the first argument is
    // a string (incl. the segmentation markers NWST / NWCH / NWEN of the DLT network-trace
    // convention), an integer or a bool; the payload decodes to the list of its raw arguments
    {
        let firsts: Vec<RefArg> = {
            let mut v = vec![];
            for t in ["NWST", "NWCH", "NWEN", "NWCX", "ABCD", "", "nwst", "NWST2"] {
                v.push(mk_arg(RefKind::Str, None, 0, false, RefValue::Str(t.to_string()), None));
                v.push(mk_arg(RefKind::Str, None, 1, false, RefValue::Str(t.to_string()), None));
            }
            v.push(mk_arg(RefKind::Uint(4), None, 0, false, RefValue::U(0x0102_0304, 4), None));
            v.push(mk_arg(RefKind::Bool, None, 0, false, RefValue::Bool(1), None));
            v
        };
        let nf = firsts.len();
        let sp = Space::new(&[nf, 16, 3, 2]);
        let s2 = sp.clone();
        fams.push(ByteFamily {
            name: "dialect.nw_trace_mixed".into(),
            about: "verbose network-trace messages (all 16 sub-types) whose first argument is a string (the markers NWST / NWCH / NWEN, near-misses, empty; both codings), an integer or a bool, followed by 0 / 1 / 2 raw arguments x byte order".into(),
            size: sp.size(),
            gen: Box::new(move |i| {
                let c = s2.coords(i);
                let big = c[3] == 1;
                let mut args = vec![firsts[c[0]].clone()];
                for q in 0..c[2] {
                    args.push(mk_arg(RefKind::Raw, None, 0, false, RefValue::Raw(vec![q as u8 + 1; 3 + q]), None));
                }
                // built as a log message (the reference encoder insists on payload kinds), MSIN patched to network trace
                let m = msg_with(if big { 0x02 } else { 0 }, 1, Some(ext(MSTP_LOG, 4, "NW", "TR")), RefPayload::Verbose(args), None);
                let mut b = enc(&m);
                b[4] = 0x01 | (MSTP_NW_TRACE << 1) | ((c[1] as u8) << 4);
                b
            }),
        });
    }
    // (e) non-verbose / control payload lengths around their minima, NOAR arbitrary, verbose bit
    //     on a control message, message types 4..7
    {
        let sp = Space::new(&[256, 8, 3, 2]);
        let s2 = sp.clone();
        fams.push(ByteFamily {
            name: "dialect.msin_payload_len".into(),
            about: "all 256 MSIN bytes x declared payload length 0..=7 (filler bytes 01 02 ..) x NOAR {0,1,255} x byte order".into(),
            size: sp.size(),
            gen: Box::new(move |i| {
                let c = s2.coords(i);
                let big = c[3] == 1;
                let mut b = vec![if big { 0x23 } else { 0x21 }, 0, 0, 0, c[0] as u8, [0u8, 1, 255][c[2]], b'A', 0, 0, 0, b'C', b'T', b'X', 0];
                for k in 0..c[1] {
                    b.push(k as u8 + 1);
                }
                let n = b.len();
                set_len(&mut b, 0, n);
                b
            }),
        });
    }
    let _ = tier;
    fams
}

/// (4) header-field exhaustive family: all 256 HTYP x LEN alphabet x MSIN alphabet x NOAR 0..3
///     x payload fillers.  The buffer always holds 48 bytes after the LEN field.
pub fn header_field_family(tier: Tier) -> ByteFamily {
    let lens: Vec<usize> = (0..=40).chain([41, 48, 52, 53, 0x100, 0x7FFF, 0xFFFF]).collect();
    let msins: Vec<u8> = match tier {
        Tier::Quick => vec![0x00, 0x01, 0x41, 0x40, 0x05, 0x15, 0x26, 0x27, 0x16, 0x17, 0x08, 0x09, 0xF1, 0x61, 0x71, 0xFE],
        Tier::Thorough => (0..=255u8).collect(),
    };
    let fillers: Vec<Vec<u8>> = vec![
        vec![0x00; 48],
        vec![0xFF; 48],
        // a bool argument, little endian, then a string argument "hi"
        {
            let mut v = vec![0x10, 0, 0, 0, 1, 0x00, 0x02, 0, 0, 3, 0, b'h', b'i', 0];
            v.resize(48, 0x10);
            v
        },
        // big-endian uint16 + raw
        {
            let mut v = vec![0, 0, 0, 0x42, 0x12, 0x34, 0, 0, 0x04, 0, 0, 2, 0xAA, 0xBB];
            v.resize(48, 0x00);
            v
        },
    ];
    let sp = Space::new(&[256, lens.len(), msins.len(), 4, fillers.len()]);
    let s2 = sp.clone();
    ByteFamily {
        name: "header_fields".into(),
        about: format!("all 256 HTYP bytes x LEN in 0..=40 and {{41,48,52,53,256,32767,65535}} x {} MSIN bytes x NOAR 0..=3 x {} payload fillers; 52 bytes total, header fields and ids filled with 'ABCD..'", msins.len(), fillers.len()),
        size: sp.size(),
        gen: Box::new(move |i| {
            let c = s2.coords(i);
            let htyp = c[0] as u8;
            let len = lens[c[1]];
            let mut b = vec![htyp, 0x01, (len >> 8) as u8, len as u8];
            let mut body: Vec<u8> = vec![];
            if htyp & 0x04 != 0 {
                body.extend_from_slice(b"EC\0U");
            }
            if htyp & 0x08 != 0 {
                body.extend_from_slice(&[1, 2, 3, 4]);
            }
            if htyp & 0x10 != 0 {
                body.extend_from_slice(&[5, 6, 7, 8]);
            }
            if htyp & 0x01 != 0 {
                body.push(msins[c[2]]);
                body.push(c[3] as u8);
                body.extend_from_slice(b"APP\0CTX\0");
            }
            body.extend_from_slice(&fillers[c[4]]);
            body.truncate(48);
            b.extend_from_slice(&body);
            b
        }),
    }
}

pub fn seed_encodings(tier: Tier) -> Vec<(Vec<u8>, Vec<usize>)> {
    let mut out = vec![];
    for (i, m) in seed_messages(tier).into_iter().enumerate() {
        let mut m = m;
        // every third seed carries a storage header
        if i % 3 == 2 {
            m.storage = Some(storage(0x0102_0304, 0x0005_0607, "ST"));
        }
        let (b, s) = encode(&m);
        out.push((b, site_positions(&s)));
    }
    out
}

/// (6) buffers of 2-3 concatenated messages, each either intact or with one structural damage
pub fn concatenations(tier: Tier) -> ByteFamily {
    let seeds = seed_messages(Tier::Quick);
    // a few variants per message: intact, NOAR+1, NOAR-1 (if >0), LEN+1, LEN-1, payload byte flipped
    let mut pieces: Vec<Vec<u8>> = vec![];
    let step = tier.pick(5, 2);
    for m in seeds.iter().step_by(step) {
        let (b, s) = encode(m);
        pieces.push(b.clone());
        if m.ext.is_some() {
            let (o, _) = site(&s, "noar", 0);
            let mut v = b.clone();
            v[o] = v[o].wrapping_add(1);
            pieces.push(v);
        }
        let mut v = b.clone();
        let l = v.len() - 1;
        v[l] ^= 0x80;
        pieces.push(v);
        if let Some((o, _, _)) = s.sites.iter().find(|x| x.2 == "type_info") {
            let mut v = b.clone();
            v[*o] ^= 0x0F;
            v[*o + 1] ^= 0x02;
            pieces.push(v);
        }
    }
    let n = pieces.len() as u64;
    ByteFamily {
        name: "concat".into(),
        about: format!("all ordered pairs of {} pieces (seed messages intact or with NOAR+1 / last byte flipped / type-info damaged), with and without storage headers in front of each", n),
        size: n * n * 2,
        gen: Box::new(move |i| {
            let st = i % 2 == 1;
            let a = &pieces[((i / 2) % n) as usize];
            let b = &pieces[((i / 2) / n) as usize];
            let mut v = vec![];
            for p in [a, b] {
                if st {
                    v.extend_from_slice(b"DLT\x01\x01\x02\x03\x04\x05\x06\x07\x08ECU\0");
                }
                v.extend_from_slice(p);
            }
            v
        }),
    }
}

/// All decode-side input families for a tier.
pub fn decode_inputs(tier: Tier) -> Vec<ByteFamily> {
    let mut fams: Vec<ByteFamily> = vec![];
    // (1) canonical encodings of U (the big families are thinned in quick: every k-th element)
    for f in universe(tier) {
        let stride: u64 = match (tier, f.name) {
            (Tier::Quick, "u.single_arg") => 2,
            (Tier::Quick, "u.boundary") => 1,
            _ => 1,
        };
        let gen = f.gen;
        fams.push(ByteFamily {
            name: format!("canon.{}", f.name),
            about: format!("canonical encodings: {}{}", f.about, if stride > 1 { format!(" (every {}th)", stride) } else { String::new() }),
            size: f.size / stride,
            gen: Box::new(move |i| enc(&gen(i * stride))),
        });
    }
    // (2) dialect
    fams.extend(dialect(tier));
    // (3) neighbourhoods
    let seeds = seed_encodings(tier);
    let d1: Vec<Vec<u8>> = seeds.iter().map(|s| s.0.clone()).collect();
    fams.push(neighbourhood_d1(d1, "mut.d1"));
    let d2_seeds: Vec<(Vec<u8>, Vec<usize>)> = match tier {
        Tier::Quick => seeds.iter().step_by(4).cloned().collect(),
        Tier::Thorough => seeds.iter().step_by(2).cloned().collect(),
    };
    fams.push(neighbourhood_d2(d2_seeds, "mut.d2"));
    // (4) header fields
    fams.push(header_field_family(tier));
    // (5) short strings
    fams.push(strings_over(&ALL256, tier.pick(2, 3), "short.all256"));
    fams.push(strings_over(&ALPHA8, tier.pick(6, 8), "short.alpha8"));
    fams.push(strings_over(&ALPHA8_STORAGE, tier.pick(6, 8), "short.alpha8_storage"));
    // (6) concatenations
    fams.push(concatenations(tier));
    // (8) resynchronisation: junk ++ message-with-storage-header, every truncation; d=1 on a subset
    fams.extend(resync_families(tier));
    // (8b) long junk: lengths around every power of two, around multiples of 10 KiB and around 64 KiB
    {
        let mut lens: Vec<usize> = vec![];
        for k in 8..=17u32 {
            for d in -4i64..=4 {
                lens.push(((1i64 << k) + d) as usize);
            }
        }
        for m in 1..=13usize {
            for d in 0..8usize {
                lens.push(m * 10_240 - 4 + d);
            }
        }
        for x in 65_520..=65_580usize {
            lens.push(x);
        }
        lens.extend([1000usize, 5000, 70_000, 100_000, 200_000]);
        lens.sort_unstable();
        lens.dedup();
        let msg = enc(&msg_with(0x04, 1, Some(ext(MSTP_LOG, 4, "APP", "CTX")), payload_for(true, Some(MSTP_LOG), 2), Some(storage(1, 2, "ECU"))));
        let n = lens.len() as u64;
        fams.push(ByteFamily {
            name: "resync.long_junk".into(),
            about: format!("{} junk lengths (2^k-4..2^k+4 for k=8..17, around every multiple of 10 KiB, 65520..=65580, 1000, 5000, 70000, 100000, 200000) x junk fill {{00, 'D', 'DLT' repeated}} in front of two storage-header messages", n),
            size: n * 3,
            gen: Box::new(move |i| {
                let l = lens[(i / 3) as usize];
                let mut b: Vec<u8> = match i % 3 {
                    0 => vec![0u8; l],
                    1 => vec![b'D'; l],
                    _ => b"DLT".iter().cycle().take(l).cloned().collect(),
                };
                b.extend_from_slice(&msg);
                b.extend_from_slice(&msg);
                b
            }),
        });
    }
    // (8c) messages that carry the storage pattern as content, followed by more data
    {
        let n = embedded_pattern_positions() as u64;
        let next = enc(&msg_with(0x04, 1, Some(ext(MSTP_LOG, 4, "NXT", "MSG")), payload_for(true, Some(MSTP_LOG), 2), Some(storage(9, 9, "NX"))));
        let tails: Vec<Vec<u8>> = vec![b"XXXX".to_vec(), vec![0u8; 20], next.clone(), next[16..].to_vec(), b"DLT".to_vec(), b"DLS\x01abcdefgh".to_vec()];
        let nt = tails.len() as u64;
        fams.push(ByteFamily {
            name: "embedded_pattern.followed".into(),
            about: "every message of u.embedded_pattern (storage pattern as content) x byte order x storage header, followed by {'XXXX', 20 zero bytes, a stored message, an unstored message, 'DLT', 'DLS\\x01abcdefgh'}".into(),
            size: n * 4 * nt,
            gen: Box::new(move |i| {
                let t = &tails[(i % nt) as usize];
                let j = i / nt;
                let m = embedded_pattern_message((j / 4) as usize, j % 2 == 1, if (j / 2) % 2 == 1 { Some(storage(0x0102_0304, 5, "STOR")) } else { None }, b"DLT\x01", "DLT\u{1}");
                let mut b = enc(&m);
                b.extend_from_slice(t);
                b
            }),
        });
    }
    // (8c2) junk in front of storage headers whose 12 content bytes are themselves unusual
    {
        let msg = enc(&msg_with(0x04, 1, Some(ext(MSTP_LOG, 4, "APP", "CTX")), payload_for(true, Some(MSTP_LOG), 0), None));
        let junks: Vec<Vec<u8>> = vec![vec![], b"X".to_vec(), b"DLT".to_vec(), vec![0u8; 7]];
        let times: Vec<[u8; 8]> = vec![[0; 8], [0xFF; 8], *b"DLT\x01DLT\x01", [1, 2, 3, 4, 0x40, 0x42, 0x0F, 0], [9, 9, 9, 9, 0x3F, 0x42, 0x0F, 0], [0, 0, 0, 0x80, 0, 0, 0, 0x80]];
        let ecus: Vec<[u8; 4]> = vec![*b"ECU1", *b"ECU\0", [0, 0, 0, 0], *b"GW01", [0xC3, 0xA9, b'1', 0], [0xFF, 0xFE, 0, 0], *b"DLT\x01", *b"    "];
        let sp = Space::new(&[junks.len(), times.len(), ecus.len()]);
        let s2 = sp.clone();
        fams.push(ByteFamily {
            name: "resync.header_content".into(),
            about: "4 junk strings x 6 storage-header timestamps (zeros, FF.., the pattern twice, microseconds = 999999 / 1000000, high bits) x 8 storage ECU ids (equal / different from the header's, blank, non-ASCII, invalid UTF-8, the pattern, spaces) in front of one message, followed by a second stored message".into(),
            size: sp.size(),
            gen: Box::new(move |i| {
                let c = s2.coords(i);
                let mut b = junks[c[0]].clone();
                for _ in 0..2 {
                    b.extend_from_slice(b"DLT\x01");
                    b.extend_from_slice(&times[c[1]]);
                    b.extend_from_slice(&ecus[c[2]]);
                    b.extend_from_slice(&msg);
                }
                b
            }),
        });
    }
    // (8c3) string arguments filled with bytes that are not valid UTF-8, of lengths around 65535/f and
    // 65536/f for f = 1..6 (a decoder that replaces or escapes such bytes multiplies the length)
    {
        let mut lens: Vec<usize> = vec![];
        for f in 1..=6usize {
            for base in [65_535 / f, 65_536 / f] {
                for d in 0..9usize {
                    let l = base + d;
                    if l >= 4 && l - 4 <= 65_500 {
                        lens.push(l - 4);
                    }
                }
            }
        }
        lens.sort_unstable();
        lens.dedup();
        let nl = lens.len();
        let sp = Space::new(&[nl, 3, 2, 2]);
        let s2 = sp.clone();
        fams.push(ByteFamily {
            name: "dialect.invalid_filled".into(),
            about: format!("a string argument (with / without variable name) of L bytes that are all 0xFF / all 0xE4 / 'a' + 0xE4 alternating, for {} lengths L around 65535/f and 65536/f (f = 1..6), x byte order; LEN covers the argument", nl),
            size: sp.size(),
            gen: Box::new(move |i| {
                let c = s2.coords(i);
                let big = c[3] == 1;
                let vari = c[2] == 1;
                let l = lens[c[0]].min(65_535 - 14 - 4 - 2 - if vari { 4 } else { 0 });
                let ti: u32 = TI_STRG | (1 << 15) | if vari { TI_VARI } else { 0 };
                let mut b = vec![if big { 0x23 } else { 0x21 }, 0, 0, 0, 0x41, 1, b'A', b'P', b'P', 0, b'C', b'T', b'X', 0];
                b.extend_from_slice(&if big { ti.to_be_bytes() } else { ti.to_le_bytes() });
                b.extend_from_slice(&if big { (l as u16).to_be_bytes() } else { (l as u16).to_le_bytes() });
                if vari {
                    b.extend_from_slice(&if big { 2u16.to_be_bytes() } else { 2u16.to_le_bytes() });
                    b.extend_from_slice(b"n\0");
                }
                b.extend((0..l).map(|k| match c[1] {
                    0 => 0xFFu8,
                    1 => 0xE4,
                    _ => if k % 2 == 0 { b'a' } else { 0xE4 },
                }));
                let len = b.len();
                b[2] = (len >> 8) as u8;
                b[3] = len as u8;
                b
            }),
        });
    }
    // (8d) every truncation of dialect inputs (non-canonical but accepted encodings must be
    // 'incomplete' at every cut as well)
    {
        let mut items: Vec<Vec<u8>> = vec![];
        for f in dialect(tier) {
            let stride = (f.size / tier.pick(200, 800)).max(1);
            let mut i = 0;
            while i < f.size {
                items.push((f.gen)(i));
                i += stride;
            }
        }
        let mut bounds = vec![];
        let mut total = 0u64;
        for c in &items {
            total += c.len() as u64;
            bounds.push(total);
        }
        let n = items.len();
        fams.push(ByteFamily {
            name: "dialect.cuts".into(),
            about: format!("every truncation (0..len-1) of {} dialect inputs (evenly spread over all dialect families: type-info variants, ids, strings, NOAR/length mismatches, MSIN/payload-length combinations)", n),
            size: total,
            gen: Box::new(move |i| {
                let s = bounds.partition_point(|b| *b <= i);
                let j = if s > 0 { i - bounds[s - 1] } else { i };
                items[s][..j as usize].to_vec()
            }),
        });
    }
    // (8e) two length fields at once: every pair over a boundary set for (name length, unit length),
    // (string length, name length), (raw length, name length), with little or with ample data behind
    {
        let lens: Vec<u32> = vec![0, 1, 2, 5, 0x7FFF, 0x8000, 0x8001, 0xC000, 0xFFF0, 0xFFFE, 0xFFFF];
        let nl = lens.len();
        let sp = Space::new(&[3, nl, nl, 2, 2]);
        let s2 = sp.clone();
        fams.push(ByteFamily {
            name: "dialect.length_pairs".into(),
            about: format!("a verbose argument with variable info whose two 16-bit length fields take ALL pairs over {:04x?}: (name, unit) of a uint32, (string, name), (raw, name); x byte order x {{40 bytes, 140000 bytes}} of data behind the lengths; LEN = 65535 or the short real length", lens),
            size: sp.size(),
            gen: Box::new(move |i| {
                let c = s2.coords(i);
                let big = c[3] == 1;
                let ti: u32 = match c[0] {
                    0 => TI_UINT | 3 | TI_VARI,
                    1 => TI_STRG | TI_VARI,
                    _ => TI_RAWD | TI_VARI,
                };
                let mut b = vec![if big { 0x23 } else { 0x21 }, 0, 0, 0, 0x41, 1, b'A', b'P', b'P', 0, b'C', b'T', b'X', 0];
                b.extend_from_slice(&if big { ti.to_be_bytes() } else { ti.to_le_bytes() });
                for l in [lens[c[1]], lens[c[2]]] {
                    b.extend_from_slice(&if big { (l as u16).to_be_bytes() } else { (l as u16).to_le_bytes() });
                }
                let data = if c[4] == 0 { 40 } else { 140_000 };
                b.extend((0..data).map(|k| if k % 9 == 8 { 0u8 } else { b'a' + (k % 23) as u8 }));
                let len = b.len().min(65_535);
                b[2] = (len >> 8) as u8;
                b[3] = len as u8;
                b
            }),
        });
    }
    // (8f) large inputs (maximal messages + follower, 0xFFFF length prefixes backed by data, long junk)
    {
        let larges = large_inputs();
        let n = larges.len() as u64;
        fams.push(ByteFamily {
            name: "large".into(),
            about: format!("{} large inputs: maximal (65535-byte) messages of each kind followed by a second message, 0xFFFF / 0xFFFE / 0x8000 length prefixes backed by 140000 data bytes under declared LEN 65535 / 30 / 22, 64-128 KiB of junk before two stored messages, messages that grow when re-serialised", n),
            size: n,
            gen: Box::new(move |i| larges[i as usize].1.clone()),
        });
    }
    fams
}

pub fn junk_strings() -> Vec<Vec<u8>> {
    let mut j: Vec<Vec<u8>> = vec![
        b"X".to_vec(),
        b"D".to_vec(),
        b"DL".to_vec(),
        b"DLT".to_vec(),
        b"DLT\0".to_vec(),
        b"DLTD".to_vec(),
        b"DDLT".to_vec(),
        b"\x01".to_vec(),
        b"LT\x01".to_vec(),
        b"DLDLT".to_vec(),
        b"DLT\x02junk".to_vec(),
        vec![0u8; 8],
        vec![0xFF; 12],
        b"0123456789abcde".to_vec(),
        b"0123456789abcdef".to_vec(),
        b"0123456789abcdefg".to_vec(),
        b"DLT log text that looks like a header".to_vec(),
    ];
    j.push(b"DLT".repeat(7));
    j
}

pub fn resync_families(tier: Tier) -> Vec<ByteFamily> {
    let msgs: Vec<Vec<u8>> = seed_messages(Tier::Quick)
        .into_iter()
        .step_by(tier.pick(6, 2))
        .map(|mut m| {
            m.storage = Some(storage(0x0102_0304, 0x0005_0607, "ST"));
            enc(&m)
        })
        .collect();
    let junks = junk_strings();
    let mut combos: Vec<Vec<u8>> = vec![];
    for j in &junks {
        for m in &msgs {
            let mut v = j.clone();
            v.extend_from_slice(m);
            combos.push(v);
        }
    }
    let mut bounds = vec![];
    let mut total = 0u64;
    for c in &combos {
        total += c.len() as u64 + 1;
        bounds.push(total);
    }
    let ncombos = combos.len();
    let d1: Vec<Vec<u8>> = combos.iter().step_by(tier.pick(9, 3)).cloned().collect();
    let cuts = ByteFamily {
        name: "resync.cuts".into(),
        about: format!("{} junk strings (partial patterns 'D','DL','DLT','DLT\\0', 15/16/17-byte junk, text starting with DLT, ..) ++ {} storage-header messages = {} buffers, every truncation of each", junks.len(), msgs.len(), ncombos),
        size: total,
        gen: Box::new(move |i| {
            let s = bounds.partition_point(|b| *b <= i);
            let j = if s > 0 { i - bounds[s - 1] } else { i };
            combos[s][..j as usize].to_vec()
        }),
    };
    let mut nb = neighbourhood_d1(d1, "resync.d1");
    nb.about = format!("junk ++ storage-header message buffers: {}", nb.about);
    vec![cuts, nb]
}

/// (7) large inputs (> 64 KiB, maximal length prefixes, junk before a storage header)
pub fn large_inputs() -> Vec<(String, Vec<u8>)> {
    let mut v: Vec<(String, Vec<u8>)> = vec![];
    // maximal messages of each kind (from the boundary family) followed by a second message
    for f in universe(Tier::Quick) {
        if f.name == "u.boundary" {
            for i in 0..f.size {
                let mut b = enc(&(f.gen)(i));
                b.extend_from_slice(&[0x21, 0, 0, 18, 0x41, 0, 0, 0, 0, 0, 0, 0, 0, 0, 1, 2, 3, 4]);
                v.push((format!("boundary[{}]+msg", i), b));
            }
        }
    }
    // 0xFFFF / 0xFFFE length prefixes backed by enough data (declared LEN is what it is: the
    // argument overruns the declared payload)
    for big in [false, true] {
        for (what, ti) in [("str", TI_STRG), ("raw", TI_RAWD), ("str+name", TI_STRG | TI_VARI), ("uint+name", TI_UINT | 3 | TI_VARI)] {
            for l in [0xFFFFusize, 0xFFFE, 0x8000] {
                for declared in [0xFFFFusize, 30, 22] {
                    let mut b = vec![if big { 0x23 } else { 0x21 }, 0, (declared >> 8) as u8, declared as u8, 0x41, 1, b'A', b'P', b'P', 0, b'C', b'T', b'X', 0];
                    let w = if big { ti.to_be_bytes() } else { ti.to_le_bytes() };
                    b.extend_from_slice(&w);
                    let l16 = if big { (l as u16).to_be_bytes() } else { (l as u16).to_le_bytes() };
                    b.extend_from_slice(&l16);
                    if ti & TI_VARI != 0 {
                        b.extend_from_slice(&l16);
                    }
                    b.resize(b.len() + 140_000, b'x');
                    v.push((format!("{} len-prefix {:#x} declared {} {}", what, l, declared, if big { "BE" } else { "LE" }), b));
                }
            }
        }
    }
    // near-maximal messages with k arguments that GROW when re-serialised (variable info with name /
    // unit size 0 is written back as size 1 + NUL; a string without terminator gains a NUL) and a
    // raw filler up to the declared length
    for big in [false, true] {
        for k in [0usize, 1, 7, 8, 9, 16, 40, 200] {
            for total in [65_535usize, 65_534, 65_500] {
                let mut b = vec![if big { 0x23 } else { 0x21 }, 0, (total >> 8) as u8, total as u8, 0x41, (k + 1).min(255) as u8, b'A', b'P', b'P', 0, b'C', b'T', b'X', 0];
                let w = |v: u32| if big { v.to_be_bytes() } else { v.to_le_bytes() };
                for j in 0..k {
                    b.extend_from_slice(&w(TI_UINT | 1 | TI_VARI)); // uint8 with variable info
                    b.extend_from_slice(&[0, 0, 0, 0]); // name size 0, unit size 0
                    b.push(j as u8);
                }
                b.extend_from_slice(&w(TI_RAWD));
                let fill = total.saturating_sub(b.len() + 2);
                let l16 = if big { (fill as u16).to_be_bytes() } else { (fill as u16).to_le_bytes() };
                b.extend_from_slice(&l16);
                b.extend((0..fill).map(|q| (q % 251) as u8));
                v.push((format!("{} growing uint8 arguments + raw filler, LEN {} {}", k, total, if big { "BE" } else { "LE" }), b));
            }
        }
    }
    // 70 KiB / 128 KiB of junk before a storage header + message
    let msg = enc(&msg_with(0x04, 1, Some(ext(MSTP_LOG, 4, "APP", "CTX")), payload_for(true, Some(MSTP_LOG), 2), Some(storage(1, 2, "ECU"))));
    for junk in [65_535usize, 65_536, 70_000, 131_072] {
        for fill in [0u8, b'D', 0xFF] {
            let mut b = vec![fill; junk];
            b.extend_from_slice(&msg);
            b.extend_from_slice(&msg);
            v.push((format!("{} junk bytes {:#x} + 2 messages", junk, fill), b));
        }
    }
    v.push(("128 KiB zeros".into(), vec![0; 131_072]));
    v.push(("128 KiB 0xFF".into(), vec![0xFF; 131_072]));
    v.push(("128 KiB 'DLT\\x01' repeated".into(), b"DLT\x01".repeat(32_768)));
    v
}

pub const STORAGE_PREFIX: &[u8; 16] = b"DLT\x01\x11\x22\x33\x44\x55\x66\x77\x08EC\0\0";
pub const VARIANTS: u64 = 3;
/// Each generated byte string b is explored as (b, no storage header), (b, storage-header mode)
/// and (16-byte storage header ++ b, storage-header mode).
pub fn variant(b: Vec<u8>, v: u64) -> (Vec<u8>, bool) {
    match v {
        0 => (b, false),
        1 => (b, true),
        _ => {
            let mut x = Vec::with_capacity(b.len() + 16);
            x.extend_from_slice(STORAGE_PREFIX);
            x.extend_from_slice(&b);
            (x, true)
        }
    }
}


// ---------------------------------------------------------------------------------------------
// (9) header-prefix sweep: every (HTYP, MCNT, LEN high byte) x a set of LEN low bytes in front of
// a fixed 64 KiB body, so that every declared length is backed by enough data.  The body is
// '20 20 20 00' repeated: whatever header flags HTYP announces, the optional fields and the extended header decode
// to a non-verbose log message with ids of four blanks.  Buffers are thread-local and shared
// between cases (only the first 4 bytes change).
// ---------------------------------------------------------------------------------------------
pub fn prefix_sweep_lows(tier: Tier) -> Vec<u8> {
    match tier {
        Tier::Quick => vec![0x01],
        Tier::Thorough => vec![0x01, 0x00, 0x02, 0x10, 0x7F, 0x80, 0xFE, 0xFF],
    }
}
/// number of LEN high bytes swept
pub fn prefix_sweep_highs(tier: Tier) -> u64 {
    match tier {
        Tier::Quick => 256,
        Tier::Thorough => 256,
    }
}
pub fn prefix_sweep_size(tier: Tier) -> u64 {
    65_536 * prefix_sweep_highs(tier) * prefix_sweep_lows(tier).len() as u64 * 2
}
pub const PREFIX_SWEEP_ABOUT: &str = "header-prefix sweep: ALL combinations of (HTYP, MCNT, LEN high byte: all 2^24) x LEN low byte in a fixed set, in front of a fixed 64 KiB body of '20 20 20 00' repeated (every declared length is backed by data; every optional field and the extended header decode to a non-verbose message) x {no storage header, storage header prepended}";
thread_local! {
    static PREFIX_BUF: std::cell::RefCell<(Vec<u8>, Vec<u8>)> = std::cell::RefCell::new((vec![], vec![]));
}
/// Run `f(input, with_storage, case identity)` on case `i` of the sweep.
pub fn with_prefix_sweep_case<R>(i: u64, tier: Tier, lows: &[u8], f: impl FnOnce(&[u8], bool) -> R) -> R {
    let storage = i % 2 == 1;
    let j = i / 2;
    let highs = prefix_sweep_highs(tier);
    let hm = (j % 65_536) as u32;
    let hi = ((j / 65_536) % highs) as u8;
    let low = lows[(j / 65_536 / highs) as usize];
    let hdr = [(hm >> 8) as u8, hm as u8, hi, low];
    PREFIX_BUF.with(|b| {
        let mut b = b.borrow_mut();
        if b.0.is_empty() {
            // 20 20 20 00 repeated: every 4-byte id window contains a NUL (nom's take_while_m_n
            // scans the whole rest of the buffer for the first NUL, so a NUL-free body would make
            // every id field cost O(buffer))
            let body = |n: usize| (0..n).map(|k| if k % 4 == 3 { 0x00u8 } else { 0x20 });
            b.0 = body(65_535 + 40).collect();
            let mut s = STORAGE_PREFIX.to_vec();
            s.extend(body(65_535 + 40));
            b.1 = s;
        }
        if storage {
            b.1[16..20].copy_from_slice(&hdr);
            f(&b.1, true)
        } else {
            b.0[..4].copy_from_slice(&hdr);
            f(&b.0, false)
        }
    })
}
