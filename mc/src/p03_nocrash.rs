//! C03 -- no byte sequence can crash the slice parsers or the use of what they return.
//! Space: the decode input space (canonical, dialect, d<=2 neighbourhoods, header fields, short
//! strings, concatenations) x storage variants x 5 filter configurations, all slice entry points;
//! a large-input family (> 64 KiB); a construct_arguments family; a pass with a Trace-level sink
//! logger so that the argument expressions of trace!/warn! are executed too.
use crate::common::*;
use crate::inputs::*;
use crate::p04_consume::filter_configs;
use crate::p18_fixedpoint::kinds as crate_kinds;
use crate::refmodel::fp;
use byteorder::{BigEndian, LittleEndian};
use dlt_core::dlt::*;
use dlt_core::filtering::ProcessedDltFilterConfig;
use dlt_core::parse::*;
use serde_json::json;



fn use_message(m: &Message, input: &[u8], what: &str, loc: &mut Local) {
    let details = || json!({"input_hex": hex_short(input), "input_len": input.len(), "entry": what, "message": fp(m)});
    let mut call = |name: &str, f: &mut dyn FnMut(), loc: &mut Local| {
        loc.transitions += 1;
        if let Err(p) = catch(|| f()) {
            let site = p.rsplit('@').next().unwrap_or("").trim().to_string();
            loc.violation(format!("{} panics @ {}", name, site), format!("{} panicked ({}) on the message returned for input {} [{}]: {}", name, p, hex_short(input), what, fp(m)), details());
        }
    };
    call("Message::as_bytes", &mut || { let _ = m.as_bytes(); }, loc);
    call("Message::byte_len", &mut || { let _ = m.byte_len(); }, loc);
    if let PayloadContent::Verbose(args) = &m.payload {
        for a in args {
            call("Argument::len", &mut || { let _ = a.len(); }, loc);
            call("Argument::as_bytes::<BigEndian>", &mut || { let _ = a.as_bytes::<BigEndian>(); }, loc);
            call("Argument::as_bytes::<LittleEndian>", &mut || { let _ = a.as_bytes::<LittleEndian>(); }, loc);
            call("Argument::to_real_value", &mut || { let _ = a.to_real_value(); }, loc);
            loc.transitions += 1;
            match catch(|| a.valid()) {
                Err(p) => loc.violation("Argument::valid panics", format!("Argument::valid panicked ({})", p), details()),
                Ok(false) => loc.violation("parsed argument is not valid()", format!("argument {:?} of the message returned for input {} [{}] fails Argument::valid()", a, hex_short(input), what), details()),
                Ok(true) => {}
            }
        }
    }
}

pub fn judge(input: &[u8], with_storage: bool, filters: &[(&'static str, Option<ProcessedDltFilterConfig>)], loc: &mut Local) {
    loc.evals += 1;
    loc.traces += 1;
    let mut got_message = false;
    let details = |what: &str| json!({"input_hex": hex_short(input), "input_len": input.len(), "with_storage_header": with_storage, "entry": what});
    let panic_site = |p: &str| p.rsplit('@').next().unwrap_or("").trim().to_string();
    for (fname, f) in filters {
        loc.transitions += 1;
        match catch(|| dlt_message(input, f.as_ref(), with_storage)) {
            Err(p) => {
                loc.outcome("panic");
                loc.violation(format!("dlt_message panics @ {}", panic_site(&p)), format!("dlt_message panicked ({}) on input {} [storage mode {}, {}]", p, hex_short(input), with_storage, fname), details(fname));
            }
            Ok(Ok((_, ParsedMessage::Item(m)))) => {
                got_message = true;
                if f.is_none() {
                    loc.outcome("message");
                    use_message(&m, input, fname, loc);
                }
            }
            Ok(Ok(_)) => loc.outcome("filtered/invalid"),
            Ok(Err(_)) => loc.outcome("error"),
        }
    }
    loc.state(mix(loc.input_hash(input), with_storage as u64), got_message);
    macro_rules! entry {
        ($name:expr, $e:expr) => {{
            loc.transitions += 1;
            if let Err(p) = catch(|| { let _ = $e; }) {
                loc.violation(format!("{} panics @ {}", $name, panic_site(&p)), format!("{} panicked ({}) on input {}", $name, p, hex_short(input)), details($name));
            }
        }};
    }
    entry!("dlt_consume_msg", dlt_consume_msg(input));
    entry!("skip_storage_header", skip_storage_header(input));
    entry!("forward_to_next_storage_header", forward_to_next_storage_header(input));
    for size in [0usize, 1, 4, input.len().saturating_sub(1), input.len(), input.len() + 1, 65535] {
        entry!("dlt_zero_terminated_string", dlt_zero_terminated_string(input, size));
    }
    if got_message {
        loc.sample(|| json!({"input": hex_short(input), "with_storage_header": with_storage}));
    }
}

fn ti(kind: TypeInfoKind) -> TypeInfo {
    TypeInfo { kind, coding: StringCoding::UTF8, has_variable_info: false, has_trace_info: false }
}

pub fn run(ctx: &Ctx) {
    ctx.set_rule("case = (byte string, storage mode), run through every slice entry point (message parser under 5 filter configurations, skipper, storage-header skipper and search, fixed-size string extraction at 7 sizes) and, for every returned message, re-serialisation, byte_len, argument len/as_bytes/to_real_value/valid; non-trivial = the parser returned a message; overflow checks and debug assertions are compiled in");
    ctx.assume("allocation failure and stack overflow abort the process and would be reported as a machinery failure (exit 2) by the driver, not as a verdict; none occurred");
    install_sink_logger();
    let filters = filter_configs();
    let filters = &filters;
    for f in decode_inputs(ctx.tier) {
        let gen = &f.gen;
        ctx.run_family(Family::new(format!("c03.{}", f.name), f.size * VARIANTS, format!("{} x 3 storage variants, all entry points", f.about), move |i, loc| {
            let (input, mode) = variant(gen(i / VARIANTS), i % VARIANTS);
            judge(&input, mode, filters, loc);
        }));
    }
    {
        let lows = prefix_sweep_lows(ctx.tier);
        let lows = &lows;
        let tier = ctx.tier;
        let two = &filters[..1];
        ctx.run_family(Family::new("c03.prefix_sweep", prefix_sweep_size(ctx.tier), format!("{} (LEN low bytes {:02x?}); parser without and with a filter, skipper, every returned message re-serialised and measured", PREFIX_SWEEP_ABOUT, lows), move |i, loc| {
            loc.input_hash_override = Some(i);
            with_prefix_sweep_case(i, tier, lows, |input, mode| judge(input, mode, two, loc));
        }).distinct());
    }
    // large inputs and their structural neighbourhoods
    {
        let larges = large_inputs();
        let n = larges.len() as u64;
        let larges = &larges;
        // per large input: intact, cut at 8 offsets near the end/64 KiB boundaries, first 40 bytes each set to 0x00/0xFF
        let cuts = [0usize, 1, 2, 3, 4, 65535, 65536, 65537];
        let per = 1 + cuts.len() as u64 * 2 + 40 * 2;
        ctx.run_family(
            Family::new("c03.large", n * per * 2, format!("{} inputs larger than 64 KiB (maximal messages of each kind followed by a message, 0xFFFF/0xFFFE/0x8000 length prefixes backed by data, 64-128 KiB of junk before a storage header, 128 KiB of zeros / FF / patterns) x {{intact, cut to k or len-k for k in {:?}, each of the first 40 bytes set to 00 or FF}} x storage mode", n, cuts), move |i, loc| {
                let mode = i % 2 == 1;
                let j = i / 2;
                let (_, base) = &larges[(j / per) as usize];
                let v = j % per;
                let input: Vec<u8> = if v == 0 {
                    base.clone()
                } else if v <= cuts.len() as u64 * 2 {
                    let c = cuts[((v - 1) / 2) as usize];
                    let at = if (v - 1) % 2 == 0 { c.min(base.len()) } else { base.len().saturating_sub(c) };
                    base[..at].to_vec()
                } else {
                    let w = v - 1 - cuts.len() as u64 * 2;
                    let mut b = base.clone();
                    let pos = (w / 2) as usize;
                    if pos < b.len() {
                        b[pos] = if w % 2 == 0 { 0x00 } else { 0xFF };
                    }
                    b
                };
                judge(&input, mode, &filters[..2], loc);
            })
            .chunk(1),
        );
    }
    // construct_arguments: all type lists of length <= 2 over all 19 kinds x all byte strings of
    // length <= L over an 8-symbol alphabet x both byte orders (no-panic only; values are C13's job)
    {
        static CA: [u8; 8] = [0x00, 0x01, 0x02, 0x03, 0xFF, b'a', 0xC3, 0x80];
        let kinds = crate_kinds();
        let nk = kinds.len() as u64;
        let lists = 1 + nk + nk * nk;
        let strs = strings_over(&CA, ctx.tier.pick(4, 5), "x");
        let kinds = &kinds;
        let sgen = &strs.gen;
        let ssize = strs.size;
        ctx.run_family(Family::new("c03.construct_arguments", lists * ssize * 2, format!("all signal-type lists of length 0..=2 over the 19 kinds (incl. fixed-point) x {} x both byte orders", strs.about), move |i, loc| {
            let big = i % 2 == 1;
            let mut j = i / 2;
            let data = sgen(j % ssize);
            j /= ssize;
            let types: Vec<TypeInfo> = if j == 0 {
                vec![]
            } else if j <= nk {
                vec![ti(kinds[(j - 1) as usize].clone())]
            } else {
                let k = j - 1 - nk;
                vec![ti(kinds[(k % nk) as usize].clone()), ti(kinds[(k / nk) as usize].clone())]
            };
            loc.evals += 1;
            loc.transitions += 1;
            loc.traces += 1;
            let e = if big { Endianness::Big } else { Endianness::Little };
            match catch(|| construct_arguments(e, &types, &data)) {
                Err(p) => {
                    let site = p.rsplit('@').next().unwrap_or("").trim().to_string();
                    loc.violation(format!("construct_arguments panics @ {}", site), format!("construct_arguments panicked ({}) for types {:?}, {:?}, data {}", p, types.iter().map(|t| &t.kind).collect::<Vec<_>>(), e, hex_short(&data)), json!({"data_hex": hex_short(&data)}));
                }
                Ok(r) => {
                    loc.state(i, r.is_ok());
                    loc.outcome(if r.is_ok() { "arguments" } else { "error" });
                }
            }
        }));
    }
    // logging pass: Trace-level sink logger installed, canonical + dialect + d=1 inputs again
    log::set_max_level(log::LevelFilter::Trace);
    for f in decode_inputs(ctx.tier) {
        if !(f.name.starts_with("canon.") || f.name.starts_with("dialect.") || f.name == "mut.d1" || f.name == "concat") {
            continue;
        }
        let stride = if f.name == "mut.d1" { ctx.tier.pick(7, 2) } else { ctx.tier.pick(3, 1) };
        let gen = &f.gen;
        let size = f.size / stride;
        ctx.run_family(Family::new(format!("c03.logging.{}", f.name), size * VARIANTS, format!("with a Trace-level logger installed (log-statement arguments are evaluated): every {}th element of: {}", stride, f.about), move |i, loc| {
            let (input, mode) = variant(gen((i / VARIANTS) * stride), i % VARIANTS);
            judge(&input, mode, &filters[..1], loc);
        }));
    }
    log::set_max_level(log::LevelFilter::Off);
}
