//! C19 -- fixed-size NUL-terminated fields consume their size and yield the clean prefix.
use crate::common::*;
use crate::inputs::strings_over;
use crate::refmodel::*;
use crate::universe::*;
use dlt_core::parse::{dlt_message, dlt_zero_terminated_string, DltParseError, ParsedMessage};
use serde_json::json;

static ZA: [u8; 8] = [0x00, b'a', 0xC3, 0xA9, 0xE2, 0x82, 0xAC, 0xFF];

/// oracle independent of `valid_up_to` (refmodel::clean_field tries decreasing lengths)
fn judge(input: &[u8], size: usize, loc: &mut Local) {
    loc.evals += 1;
    loc.transitions += 1;
    loc.traces += 1;
    loc.state(mix(fnv64(input), size as u64), input.len() >= size && size > 0);
    let details = || json!({"input_hex": hex_short(input), "size": size});
    // the text is taken over as BYTES first: a &str that is not valid UTF-8 (undefined behaviour behind
    // from_utf8_unchecked) must never be formatted or compared as a string
    let r = catch(|| dlt_zero_terminated_string(input, size).map(|(rest, s)| (rest.len(), rest.as_ptr() as usize, s.as_bytes().to_vec())));
    let r = match r {
        Ok(Ok((a, b, bytes))) => match String::from_utf8(bytes) {
            Ok(s) => Ok(Ok((a, b, s))),
            Err(e) => {
                loc.outcome("invalid UTF-8 text");
                loc.violation("field text is not valid UTF-8", format!("dlt_zero_terminated_string({}, {}) returned a &str holding the bytes {} (not valid UTF-8)", hex_short(input), size, hex(e.as_bytes())), details());
                return;
            }
        },
        Ok(Err(e)) => Ok(Err(e)),
        Err(p) => Err(p),
    };
    match r {
        Err(p) => loc.violation("dlt_zero_terminated_string panics", format!("dlt_zero_terminated_string({}, {}) panicked: {}", hex_short(input), size, p), details()),
        Ok(res) => {
            if input.len() >= size {
                let expect = clean_field(&input[..size]);
                match res {
                    Ok((rest_len, rest_ptr, s)) => {
                        if rest_len != input.len() - size || rest_ptr != input.as_ptr() as usize + size {
                            loc.outcome("wrong consumption");
                            loc.violation("field does not consume exactly its size", format!("dlt_zero_terminated_string({}, {}) left {} bytes, expected {}", hex_short(input), size, rest_len, input.len() - size), details());
                        } else if s != expect {
                            loc.outcome("wrong text");
                            loc.violation("field text is not the clean prefix", format!("dlt_zero_terminated_string({}, {}) returned {:?}, expected {:?}", hex_short(input), size, s, expect), details());
                        } else {
                            loc.outcome("field ok");
                            loc.sample(|| json!({"input": hex_short(input), "size": size, "text": s}));
                        }
                    }
                    Err(e) => {
                        loc.outcome("error on sufficient input");
                        loc.violation("field extraction fails although enough bytes are present", format!("dlt_zero_terminated_string({}, {}) = Err({:?}) with {} >= {} bytes available", hex_short(input), size, e, input.len(), size), details());
                    }
                }
            } else {
                let shortfall = size - input.len();
                match res {
                    Err(DltParseError::IncompleteParse { needed }) => {
                        if let Some(k) = needed {
                            if k.get() > shortfall {
                                loc.outcome("hint too large");
                                loc.violation("incomplete hint exceeds the shortfall", format!("dlt_zero_terminated_string({}, {}): hint {} but only {} bytes are missing", hex_short(input), size, k, shortfall), details());
                                return;
                            }
                        }
                        loc.outcome("incomplete ok");
                    }
                    other => {
                        loc.outcome("not incomplete");
                        loc.violation("short input is not reported incomplete", format!("dlt_zero_terminated_string({}, {}) = {:?} although {} bytes are missing", hex_short(input), size, other.map(|x| (x.0, x.2)), shortfall), details());
                    }
                }
            }
        }
    }
}

pub fn run(ctx: &Ctx) {
    ctx.enable_trace_pass(ctx.tier.pick(20000u64, 200000u64));
    ctx.set_rule("case = (byte string, size); all strings of length <= L over {00,'a',C3,A9,E2,82,AC,FF} (multi-byte sequences that can be cut) x all sizes 0..=L+2; large sizes against inputs of size-1/size/size+1 bytes; all 4096 four-byte id strings in every id position of a message; non-trivial = enough bytes available and size > 0");
    let l = ctx.tier.pick(6u32, 7u32);
    let fam = strings_over(&ZA, l, "z");
    let gen = &fam.gen;
    let nsizes = l as u64 + 3;
    ctx.run_family(Family::new("c19.short", fam.size * nsizes, format!("{} x sizes 0..={}", fam.about, l + 2), move |i, loc| {
        let s = gen(i / nsizes);
        judge(&s, (i % nsizes) as usize, loc);
    }));
    // history: the result for one field must not depend on the fields parsed before (scratch
    // buffers, memoised validity): ALL ordered pairs over 600 (input, size) cases
    {
        let l2 = 4u32;
        let fam2 = strings_over(&ZA, l2, "z");
        let gen2 = &fam2.gen;
        let ns = l2 as u64 + 3;
        let total = fam2.size * ns;
        let m: u64 = 600.min(total);
        let stride = (total / m).max(1);
        ctx.run_family(Family::new("c19.history", m * m, format!("ALL ordered pairs (a, b) over {} (byte string of length <= 4, size) cases spread evenly over that product (every {}th): a is parsed, then b is judged twice on the same thread", m, stride), move |i, loc| {
            let (ia, ib) = ((i / m) * stride, (i % m) * stride);
            let a = gen2(ia / ns);
            let _ = catch(|| dlt_core::parse::dlt_zero_terminated_string(&a, (ia % ns) as usize).map(|(r, s)| (r.len(), s.to_string())));
            let b = gen2(ib / ns);
            judge(&b, (ib % ns) as usize, loc);
            judge(&b, (ib % ns) as usize, loc);
        }).distinct());
    }
    // large sizes
    {
        let sizes = [255usize, 256, 4096, 65_534, 65_535];
        let fills: [&[u8]; 4] = [b"a", &[0xC3, 0xA9], &[0xE2, 0x82, 0xAC], &[0xF0, 0x9F, 0x98, 0x80]];
        // special byte (NUL / invalid) position: none, first, middle, last-1, last
        let sp = Space::new(&[sizes.len(), 3, fills.len(), 5, 2]);
        let s2 = sp.clone();
        ctx.run_family(Family::new("c19.large", sp.size(), "sizes {255,256,4096,65534,65535} x input length {size-1,size,size+1} x fill pattern {'a', é, €, 😀 repeated} x special byte at {none, first, middle, last-1, last} x {NUL, 0xFF}", move |i, loc| {
            let c = s2.coords(i);
            let size = sizes[c[0]];
            let n = size + c[1] - 1;
            let mut b: Vec<u8> = fills[c[2]].iter().cycle().take(n).cloned().collect();
            let special = if c[4] == 0 { 0x00 } else { 0xFF };
            match c[3] {
                1 => b[0] = special,
                2 => b[n / 2] = special,
                3 => b[n - 2] = special,
                4 => b[n - 1] = special,
                _ => {}
            }
            judge(&b, size, loc);
        }));
    }
    // every size 0..=S: special byte (NUL / invalid / cut multi-byte) at every position, input
    // shorter by 1, exact, longer by 1 and by 300
    {
        let smax = ctx.tier.pick(300usize, 1100usize);
        let tri = (smax + 1) * (smax + 2) / 2; // pairs (size, pos) with pos <= size; pos == size means "no special byte"
        let fills: [&[u8]; 3] = [b"a", &[0xC3, 0xA9], &[0xE2, 0x82, 0xAC]];
        // single special bytes and PAIRS (an invalid or cut sequence directly in front of the NUL, a NUL in
        // front of an invalid byte, two NULs)
        let specials: [&[u8]; 9] = [&[0x00], &[0xFF], &[0xC3], &[0xC3, 0x00], &[0xFF, 0x00], &[0xE2, 0x82, 0x00], &[0x00, 0xFF], &[0x00, 0x00], &[0xF0, 0x9F, 0x00]];
        let sp = Space::new(&[tri, fills.len(), specials.len(), 4]);
        let s2 = sp.clone();
        ctx.run_family(Family::new("c19.size_sweep", sp.size(), format!("every size 0..={} x special bytes {{NUL, 0xFF, a lead byte, lead byte + NUL, 0xFF + NUL, cut 3-byte sequence + NUL, NUL + 0xFF, two NULs, cut 4-byte sequence + NUL}} at every position 0..size (or none) x fill {{'a', é, € repeated}} x input length {{size-1, size, size+1, size+300}}", smax), move |i, loc| {
            let c = s2.coords(i);
            // invert the triangular index
            let mut size = ((((8 * c[0] + 1) as f64).sqrt() - 1.0) / 2.0) as usize;
            while (size + 1) * (size + 2) / 2 <= c[0] {
                size += 1;
            }
            while size * (size + 1) / 2 > c[0] {
                size -= 1;
            }
            let pos = c[0] - size * (size + 1) / 2;
            let n = match c[3] {
                0 => size.saturating_sub(1),
                1 => size,
                2 => size + 1,
                _ => size + 300,
            };
            let mut b: Vec<u8> = fills[c[1]].iter().cycle().take(n).cloned().collect();
            for (k, sb) in specials[c[2]].iter().enumerate() {
                if pos + k < size && pos + k < n {
                    b[pos + k] = *sb;
                }
            }
            judge(&b, size, loc);
        }));
    }
    // every Unicode scalar value as field content, intact and damaged
    {
        let scalars: u64 = 0x11_0000 - 0x800 - 1;
        const V: u64 = 7;
        ctx.run_family(Family::new("c19.chars", scalars * V, "EVERY Unicode scalar value c (U+0001..U+10FFFF without surrogates) in 7 contexts: the field is exactly c; c 'ab' then a lone lead byte; 'a' c NUL 'x'; c c with the second cut by the size limit; c alone with two bytes missing (incomplete); c U+FFFD 0xFF (a genuine replacement character before an invalid byte); c as the last character before padding NULs".to_string(), move |i, loc| {
            let k = (i / V) as u32 + 1;
            let code = if k >= 0xD800 { k + 0x800 } else { k };
            let c = char::from_u32(code).expect("scalar");
            let mut cb = [0u8; 4];
            let cs = c.encode_utf8(&mut cb).as_bytes().to_vec();
            let l = cs.len();
            let (input, size): (Vec<u8>, usize) = match i % V {
                0 => (cs.clone(), l),
                1 => {
                    let mut b = cs.clone();
                    b.extend_from_slice(b"ab\xC3");
                    (b, l + 3)
                }
                2 => {
                    let mut b = vec![b'a'];
                    b.extend_from_slice(&cs);
                    b.extend_from_slice(b"\0x");
                    (b, l + 3)
                }
                3 => {
                    let mut b = cs.clone();
                    b.extend_from_slice(&cs);
                    b.push(b'z');
                    (b, (2 * l).saturating_sub(1).max(1))
                }
                4 => (cs.clone(), l + 2),
                5 => {
                    let mut b = cs.clone();
                    b.extend_from_slice("\u{FFFD}".as_bytes());
                    b.extend_from_slice(b"\xFFrest");
                    (b, l + 3 + 1 + 2)
                }
                _ => {
                    let mut b = b"xy".to_vec();
                    b.extend_from_slice(&cs);
                    b.extend_from_slice(b"\0\0\0tail");
                    (b, l + 5)
                }
            };
            judge(&input, size, loc);
        }));
    }
    // ids that a filter list nearly names: the id returned is still the clean prefix of its own bytes
    {
        let ids: Vec<&[u8; 4]> = vec![b"APP ", b"AP  ", b"A   ", b"    ", b"APP\0", b"AP\0 ", b" APP", b"app\0", b"APP\t", b"AP\0P"];
        let lists: Vec<Vec<&str>> = vec![vec!["APP"], vec!["AP"], vec!["A"], vec![""], vec!["APP", "APP ", "AP", "A", "", " APP", "app", "APP\t", "AP  ", "A   ", "    "]];
        let sp = Space::new(&[ids.len(), lists.len(), 3]);
        let s2 = sp.clone();
        let (ids, lists) = (&ids, &lists);
        ctx.run_family(Family::new("c19.ids_near_filter_entries", sp.size(), "10 id byte patterns with trailing blanks / NUL / tab / case variants in the application, context or ECU position x 5 filter lists that hold the stripped or the exact spellings: whenever the message is returned, each id is the clean prefix of its own four bytes", move |i, loc| {
            let c = s2.coords(i);
            let m = msg_with(0x04, 1, Some(ext(MSTP_LOG, 4, "APP", "CTX")), payload_for(true, Some(MSTP_LOG), 0), None);
            let (mut b, sites) = encode(&m);
            let label = ["apid", "ctid", "ecu"][c[2]];
            let o = sites.sites.iter().find(|s| s.2 == label).unwrap().0;
            b[o..o + 4].copy_from_slice(ids[c[0]]);
            let set: std::collections::HashSet<String> = lists[c[1]].iter().map(|s| s.to_string()).collect();
            let f = crate::common::PF { min_log_level: None, app_ids: if c[2] == 0 { Some(set.clone()) } else { None }, context_ids: if c[2] == 1 { Some(set.clone()) } else { None }, ecu_ids: if c[2] == 2 { Some(set.clone()) } else { None }, app_id_count: 0, context_id_count: 0 }.build();
            let expect = clean_field(&b[o..o + 4]);
            loc.evals += 1;
            loc.transitions += 1;
            loc.traces += 1;
            loc.state(i, true);
            match catch(|| dlt_message(&b, Some(&f), false).map(|(rest, pm)| (rest.len(), pm))) {
                Ok(Ok((0, ParsedMessage::Item(pm)))) => {
                    let got = match c[2] {
                        0 => pm.extended_header.as_ref().map(|e| e.application_id.clone()),
                        1 => pm.extended_header.as_ref().map(|e| e.context_id.clone()),
                        _ => pm.header.ecu_id.clone(),
                    };
                    if got.as_deref() == Some(expect.as_str()) {
                        loc.outcome("kept, id ok");
                    } else {
                        loc.outcome("wrong id");
                        loc.violation("a filter changes the id that is returned", format!("{} bytes {} with the filter list {:?}: returned {:?}, expected {:?}", label, hex(&b[o..o + 4]), lists[c[1]], got, expect), json!({"input_hex": hex_short(&b)}));
                    }
                }
                Ok(Ok((0, ParsedMessage::FilteredOut(_)))) => loc.outcome("filtered out"),
                other => loc.violation("id bytes break message parsing", format!("{} bytes {} with a filter: {:?}", label, hex(&b[o..o + 4]), other.map(|r| r.map(|x| x.0))), json!({"input_hex": hex_short(&b)})),
            }
        }));
    }
    // adjacent id fields: a character split across the boundary between two 4-byte fields must be
    // treated per field (application id | context id; header ECU id | session id bytes)
    {
        // first field: all 4096 strings over the alphabet; start of the neighbour: continuation / lead / NUL / ASCII
        let next: Vec<[u8; 4]> = vec![[0xA9, b'T', b'X', 0], [0x82, 0xAC, b'x', 0], [0xAC, 0, 0, 0], [0x9F, 0x98, 0x80, 0], [b'C', b'T', b'X', 0], [0, 0, 0, 0], [0xC3, 0xA9, 0, 0], [0xFF, b'a', 0, 0], [0x80, 0x80, 0x80, 0x80], [0xBF, 0xBF, 0xBF, 0]];
        let firsts: Vec<[u8; 4]> = {
            let mut v: Vec<[u8; 4]> = vec![];
            for j in 0..4096usize {
                let mut j2 = j;
                let mut a = [0u8; 4];
                for k in 0..4 {
                    a[k] = ZA[j2 % 8];
                    j2 /= 8;
                }
                v.push(a);
            }
            // lead bytes of 4-byte characters
            for a in [[b'a', b'b', b'c', 0xF0], [b'a', b'b', 0xF0, 0x9F], [b'a', 0xF0, 0x9F, 0x98], [b'A', b'P', b'P', 0xC3], [b'A', b'P', 0xE2, 0x82]] {
                v.push(a);
            }
            v
        };
        let sp = Space::new(&[firsts.len(), next.len(), 2]);
        let s2 = sp.clone();
        let (firsts, next) = (&firsts, &next);
        ctx.run_family(Family::new("c19.adjacent_ids", sp.size(), format!("{} four-byte strings (all 4096 over the alphabet + lead bytes of 3/4-byte characters at the end) in one id field x {} neighbour fields that begin with matching continuation bytes, other continuation bytes, a lead byte, NUL, ASCII, 0xFF x {{application id | context id, header ECU id | session id}}: each id is the clean prefix of ITS OWN four bytes", firsts.len(), next.len()), move |i, loc| {
            let c = s2.coords(i);
            let m = msg_with(0x04 | 0x08, 1, Some(ext(MSTP_LOG, 4, "APP", "CTX")), payload_for(true, Some(MSTP_LOG), 0), None);
            let (mut b, sites) = encode(&m);
            let (l1, l2) = if c[2] == 0 { ("apid", "ctid") } else { ("ecu", "session") };
            let o1 = sites.sites.iter().find(|s| s.2 == l1).unwrap().0;
            let o2 = o1 + 4; // the context id follows the application id, the session id the ECU id
            b[o1..o1 + 4].copy_from_slice(&firsts[c[0]]);
            b[o2..o2 + 4].copy_from_slice(&next[c[1]]);
            let e1 = clean_field(&b[o1..o1 + 4]);
            let e2 = clean_field(&b[o2..o2 + 4]);
            loc.evals += 1;
            loc.transitions += 1;
            loc.traces += 1;
            loc.state(i, true);
            match catch(|| dlt_message(&b, None, false).map(|(rest, pm)| (rest.len(), pm))) {
                Ok(Ok((0, ParsedMessage::Item(pm)))) => {
                    // a String that is not valid UTF-8 must never be formatted: report it by its bytes
                    let texts: Vec<&String> = pm.extended_header.iter().flat_map(|e| [&e.application_id, &e.context_id]).chain(pm.header.ecu_id.iter()).collect();
                    if let Some(bad) = texts.iter().find(|t| std::str::from_utf8(t.as_bytes()).is_err()) {
                        loc.outcome("invalid UTF-8 id");
                        loc.violation("an id is returned that is not valid UTF-8", format!("{} bytes {} followed by {} bytes {}: the parser returned an id holding the bytes {} (not valid UTF-8)", l1, hex(&b[o1..o1 + 4]), l2, hex(&b[o2..o2 + 4]), hex(bad.as_bytes())), json!({"input_hex": hex_short(&b)}));
                        return;
                    }
                    let ok = if c[2] == 0 {
                        pm.extended_header.as_ref().map(|e| (e.application_id.as_str(), e.context_id.as_str())) == Some((e1.as_str(), e2.as_str()))
                    } else {
                        pm.header.ecu_id.as_deref() == Some(e1.as_str()) && pm.header.session_id == Some(u32::from_be_bytes([b[o2], b[o2 + 1], b[o2 + 2], b[o2 + 3]]))
                    };
                    if ok {
                        loc.outcome("ids ok");
                    } else {
                        loc.outcome("wrong id");
                        loc.violation("adjacent fields influence an id", format!("{} bytes {} followed by {} bytes {}: parsed ext {:?} ecu {:?} session {:?}; expected first id {:?}{}", l1, hex(&b[o1..o1 + 4]), l2, hex(&b[o2..o2 + 4]), pm.extended_header.as_ref().map(|e| (e.application_id.clone(), e.context_id.clone())), pm.header.ecu_id, pm.header.session_id, e1, if c[2] == 0 { format!(", second id {:?}", e2) } else { String::new() }), json!({"input_hex": hex_short(&b)}));
                    }
                }
                other => loc.violation("id bytes break message parsing", format!("message with {} {} / {} {} does not parse completely: {:?}", l1, hex(&b[o1..o1 + 4]), l2, hex(&b[o2..o2 + 4]), other.map(|r| r.map(|x| x.0))), json!({"input_hex": hex_short(&b)})),
            }
        }));
    }
    // "with fewer than n bytes available it reports incomplete" for the ids of a message: the buffer
    // ends inside each id field, with and without junk in front of the storage header, with and
    // without a filter
    {
        let junks: Vec<Vec<u8>> = vec![vec![], b"X".to_vec(), b"DL".to_vec(), vec![0u8; 5], vec![0x58; 17], b"DLT".repeat(7)];
        let sp = Space::new(&[4, 4, junks.len(), 2, 2]);
        let s2 = sp.clone();
        let junks = &junks;
        ctx.run_family(Family::new("c19.id_fields_cut_short", sp.size(), "a message cut after 0..=3 bytes of each of its id fields (storage ECU, header ECU, APID, CTID) x 6 junk strings in front of the storage header (none, short, partial patterns, longer than a storage header) x storage / no storage mode x filter: the parser reports incomplete, any size hint being no larger than the bytes missing from the message", move |i, loc| {
            let c = s2.coords(i);
            let storage_mode = c[3] == 1;
            if !storage_mode && (c[1] == 0 || c[2] != 0) {
                return; // no storage header: no storage ECU id and no junk skipping
            }
            let m = msg_with(0x04, 1, Some(ext(MSTP_LOG, 4, "APP", "CTX")), payload_for(true, Some(MSTP_LOG), 0), if storage_mode { Some(storage(1, 2, "ECU")) } else { None });
            let (b, sites) = encode(&m);
            let label = ["storage_ecu", "ecu", "apid", "ctid"][c[1]];
            let (o, _, _) = *sites.sites.iter().find(|s| s.2 == label).unwrap();
            let cut = o + c[0];
            let mut input = junks[c[2]].clone();
            input.extend_from_slice(&b[..cut]);
            let missing = b.len() - cut;
            let filter = if c[4] == 1 { Some(crate::common::PF { min_log_level: None, app_ids: None, ecu_ids: Some(["ECU1".to_string(), "ECU".to_string()].into_iter().collect()), context_ids: None, app_id_count: 0, context_id_count: 0 }.build()) } else { None };
            loc.evals += 1;
            loc.transitions += 1;
            loc.traces += 1;
            loc.state(i + 0x1900_0000, true);
            let details = || json!({"input_hex": hex_short(&input), "field": label, "bytes_of_field_present": c[0], "junk_len": junks[c[2]].len()});
            match catch(|| dlt_message(&input, filter.as_ref(), storage_mode).map(|(rest, pm)| (rest.len(), format!("{:?}", pm).chars().take(80).collect::<String>()))) {
                Ok(Err(dlt_core::parse::DltParseError::IncompleteParse { needed })) => match needed {
                    Some(n) if n.get() > missing => loc.violation("size hint larger than the shortfall", format!("{} cut after {} of its 4 bytes ({} junk bytes in front): hint {} but only {} bytes are missing", label, c[0], junks[c[2]].len(), n, missing), details()),
                    _ => loc.outcome("incomplete"),
                },
                other => loc.violation("id field cut short is not reported as incomplete", format!("{} cut after {} of its 4 bytes ({} junk bytes in front, storage mode {}, filter {}): {:?}", label, c[0], junks[c[2]].len(), storage_mode, c[4] == 1, other), details()),
            }
        }));
    }
    // ids of a message obey the same rule
    {
        static ZB: [u8; 8] = [0x00, 0x01, 0x41, 0x7F, 0x80, 0xFE, 0x20, 0x09];
        let sp = Space::new(&[4096, 4, 2, 2]);
        let s2 = sp.clone();
        ctx.run_family(Family::new("c19.message_ids", sp.size(), "all 4096 four-byte strings over the alphabet (and over a second one: 00 01 'A' 7F 80 FE blank tab) in each id position (storage ECU, header ECU, APID, CTID) of a storage-header message; parsed without a filter and with a filter that admits the message (ECU id set = the expected header and storage ids)", move |i, loc| {
            let c = s2.coords(i);
            let m = msg_with(0x04, 1, Some(ext(MSTP_LOG, 4, "APP", "CTX")), payload_for(true, Some(MSTP_LOG), 0), Some(storage(1, 2, "ECU")));
            let (mut b, sites) = encode(&m);
            let label = ["storage_ecu", "ecu", "apid", "ctid"][c[1]];
            let (o, _, _) = *sites.sites.iter().find(|s| s.2 == label).unwrap();
            let mut j = c[0];
            for k in 0..4 {
                b[o + k] = if c[3] == 0 { ZA[j % 8] } else { ZB[j % 8] };
                j /= 8;
            }
            let expect = clean_field(&b[o..o + 4]);
            loc.evals += 1;
            loc.transitions += 1;
            loc.traces += 1;
            loc.state(mix(fnv64(&b), c[2] as u64 + 2 * c[3] as u64), true);
            let filter = if c[2] == 1 {
                let hdr = clean_field(&b[sites.sites.iter().find(|s| s.2 == "ecu").unwrap().0..][..4]);
                let st = clean_field(&b[12..16]);
                Some(crate::common::PF { min_log_level: None, app_ids: None, ecu_ids: Some([hdr, st, "ECU".to_string()].into_iter().collect()), context_ids: None, app_id_count: 0, context_id_count: 0 }.build())
            } else {
                None
            };
            match catch(|| dlt_message(&b, filter.as_ref(), true).map(|(rest, pm)| (rest.len(), pm))) {
                Ok(Ok((0, ParsedMessage::Item(pm)))) => {
                    let texts: Vec<&String> = pm.extended_header.iter().flat_map(|e| [&e.application_id, &e.context_id]).chain(pm.header.ecu_id.iter()).chain(pm.storage_header.iter().map(|s| &s.ecu_id)).collect();
                    if let Some(bad) = texts.iter().find(|t| std::str::from_utf8(t.as_bytes()).is_err()) {
                        loc.outcome("invalid UTF-8 id");
                        loc.violation("an id is returned that is not valid UTF-8", format!("{} bytes {}: the parser returned an id holding the bytes {} (not valid UTF-8)", label, hex(&b[o..o + 4]), hex(bad.as_bytes())), json!({"input_hex": hex_short(&b)}));
                        return;
                    }
                    let got = match c[1] {
                        0 => pm.storage_header.as_ref().map(|s| s.ecu_id.clone()),
                        1 => pm.header.ecu_id.clone(),
                        2 => pm.extended_header.as_ref().map(|e| e.application_id.clone()),
                        _ => pm.extended_header.as_ref().map(|e| e.context_id.clone()),
                    };
                    // the other ids must be untouched
                    let others_ok = (c[1] == 0 || pm.storage_header.as_ref().map(|s| s.ecu_id.as_str()) == Some("ECU"))
                        && (c[1] == 1 || pm.header.ecu_id.as_deref() == Some("ECU1"))
                        && (c[1] == 2 || pm.extended_header.as_ref().map(|e| e.application_id.as_str()) == Some("APP"))
                        && (c[1] == 3 || pm.extended_header.as_ref().map(|e| e.context_id.as_str()) == Some("CTX"));
                    if got.as_deref() != Some(expect.as_str()) || !others_ok {
                        loc.outcome("wrong id");
                        loc.violation("message id is not the clean prefix of its 4 bytes", format!("{} bytes {} parsed as {:?}, expected {:?} (other ids intact: {}); message {}", label, hex(&b[o..o + 4]), got, expect, others_ok, hex_short(&b)), json!({"input_hex": hex_short(&b)}));
                    } else {
                        loc.outcome("id ok");
                    }
                }
                other => {
                    loc.outcome("message lost");
                    loc.violation("id bytes break message parsing", format!("message with {} bytes {} does not parse completely: {:?}; message {}", label, hex(&b[o..o + 4]), other.map(|r| r.map(|x| x.0)), hex_short(&b)), json!({"input_hex": hex_short(&b)}));
                }
            }
        }));
    }
}
