//! Bulk exploration of the two readers on LARGE streams under *pattern* schedules (no per-read
//! choice points: the schedule is a closed formula, the enumerated dimensions are the stream
//! shape, the message length, the phase of the stream against the readers' internal buffers,
//! the chunk size, the disturbance period and the filter).  Shared by C07 (blocking reader),
//! C08 (async reader) and C09 (filter through the readers).
//!
//! The oracle is the statement's cutter, evaluated lazily while the reader runs: at offset o the
//! next piece is stream[o .. o+(16+)LEN]; the reader must return what dlt_message returns on that
//! piece with the same filter; after the last complete piece: end of stream (clean end), end of
//! stream or an error (truncated tail), anything but a panic (declared length < 4).
use crate::common::*;
use crate::refmodel::same_message;
use dlt_core::filtering::ProcessedDltFilterConfig;
use dlt_core::parse::{dlt_message, DltParseError, ParsedMessage};
use std::io::{ErrorKind, Read};
use std::pin::Pin;
use std::sync::Arc;
use std::task::{Context, Poll};

#[derive(Clone, Copy, Debug)]
pub struct Pattern {
    /// at most this many bytes per read (0 = as many as asked for)
    pub chunk: usize,
    /// an Interrupted / Pending answer before every k-th delivering read (0 = never)
    pub disturb_every: usize,
}
impl Pattern {
    pub fn describe(&self, is_async: bool) -> String {
        format!(
            "{} per read{}",
            if self.chunk == 0 { "everything asked for".to_string() } else { format!("at most {} byte(s)", self.chunk) },
            if self.disturb_every == 0 { String::new() } else { format!(", {} before every {} read", if is_async { "Poll::Pending" } else { "ErrorKind::Interrupted" }, ordinal(self.disturb_every)) }
        )
    }
}
fn ordinal(k: usize) -> String {
    match k {
        1 => "single".into(),
        2 => "2nd".into(),
        3 => "3rd".into(),
        k => format!("{}th", k),
    }
}

pub struct PatternSource {
    pub data: Arc<Vec<u8>>,
    /// the stream is `data` repeated this many times (virtual streams of several GiB)
    pub repeat: u64,
    pub off: usize,
    pub pat: Pattern,
    pub reads: usize,
    pub disturbed: bool,
    /// (deliveries, disturbances), shared with the driver (the reader owns the source)
    pub counters: std::rc::Rc<std::cell::Cell<(u64, u64)>>,
}
impl PatternSource {
    pub fn new(data: Arc<Vec<u8>>, pat: Pattern) -> Self {
        PatternSource { data, repeat: 1, off: 0, pat, reads: 0, disturbed: false, counters: Default::default() }
    }
    /// None = disturb now; Some(k) = deliver k bytes
    fn total(&self) -> usize {
        self.data.len() * self.repeat as usize
    }
    fn copy_out(&mut self, buf: &mut [u8], k: usize) {
        let bl = self.data.len();
        let mut done = 0;
        while done < k {
            let at = (self.off + done) % bl;
            let n = (k - done).min(bl - at);
            buf[done..done + n].copy_from_slice(&self.data[at..at + n]);
            done += n;
        }
        self.off += k;
    }
    fn answer(&mut self, want: usize) -> Option<usize> {
        let rest = self.total() - self.off;
        if rest == 0 || want == 0 {
            return Some(0);
        }
        if self.pat.disturb_every > 0 && !self.disturbed && self.reads % self.pat.disturb_every == 0 {
            self.disturbed = true;
            let c = self.counters.get();
            self.counters.set((c.0, c.1 + 1));
            return None;
        }
        self.disturbed = false;
        self.reads += 1;
        let c = self.counters.get();
        self.counters.set((c.0 + 1, c.1));
        let mut k = want.min(rest);
        if self.pat.chunk > 0 {
            k = k.min(self.pat.chunk);
        }
        Some(k)
    }
}
impl Read for PatternSource {
    fn read(&mut self, buf: &mut [u8]) -> std::io::Result<usize> {
        match self.answer(buf.len()) {
            Some(k) => {
                self.copy_out(buf, k);
                Ok(k)
            }
            None => Err(std::io::Error::new(ErrorKind::Interrupted, "scripted interrupt")),
        }
    }
}
impl futures::io::AsyncRead for PatternSource {
    fn poll_read(mut self: Pin<&mut Self>, cx: &mut Context<'_>, buf: &mut [u8]) -> Poll<std::io::Result<usize>> {
        match self.answer(buf.len()) {
            Some(k) => {
                self.copy_out(buf, k);
                Poll::Ready(Ok(k))
            }
            None => {
                cx.waker().wake_by_ref();
                Poll::Pending
            }
        }
    }
}

#[derive(Clone, Copy, Debug, PartialEq)]
pub enum Cap {
    /// `new` (10 MiB buffer, 65551-byte message buffer)
    Default,
    /// `with_capacity(65551, 65551, ..)`: the smallest that holds every declared length
    Minimal,
    /// `with_capacity(buffer_capacity, message_max_len, ..)` for streams whose messages all fit
    Custom(usize, usize),
}

enum Next {
    Piece(usize),
    CleanEnd,
    TruncatedTail,
    ShortLen,
}
fn cutter(stream: &[u8], o: usize, storage: bool) -> Next {
    let st = if storage { 16 } else { 0 };
    if stream.len() - o < st + 4 {
        return Next::CleanEnd;
    }
    let len = ((stream[o + st + 2] as usize) << 8) | stream[o + st + 3] as usize;
    if len < 4 {
        return Next::ShortLen;
    }
    if stream.len() - o < st + len {
        return Next::TruncatedTail;
    }
    Next::Piece(o + st + len)
}

#[derive(Default, Debug)]
pub struct BulkStats {
    pub messages: u64,
    pub filtered: u64,
    pub piece_errors: u64,
    pub disturbances: u64,
    pub deliveries: u64,
}

fn class(e: &DltParseError) -> &'static str {
    match e {
        DltParseError::IncompleteParse { .. } => "Err(IncompleteParse)",
        DltParseError::ParsingHickup(_) => "Err(ParsingHickup)",
        DltParseError::Unrecoverable(_) => "Err(Unrecoverable)",
        // a variant this harness does not know (the enum is not #[non_exhaustive]; a change that
        // adds one must not stop the harness from building)
        #[allow(unreachable_patterns)]
        _ => "Err(other)",
    }
}
fn same(a: &ParsedMessage, b: &ParsedMessage) -> bool {
    match (a, b) {
        (ParsedMessage::Item(x), ParsedMessage::Item(y)) => same_message(x, y),
        _ => a == b,
    }
}
fn short(pm: &ParsedMessage) -> String {
    format!("{:?}", pm).chars().take(90).collect()
}

/// Judge one reader result against the cutter; Ok(Some(new offset)) to continue, Ok(None) when the
/// stream is finished, Err(description) on a disagreement.
fn step(stream: &[u8], o: usize, storage: bool, filter: Option<&ProcessedDltFilterConfig>, idx: u64, got: Result<Result<Option<ParsedMessage>, DltParseError>, String>, stats: &mut BulkStats) -> Result<Option<usize>, String> {
    let got = match got {
        Err(p) => return Err(format!("the reader PANICKED ({}) at result {} (stream offset {})", p, idx, o)),
        Ok(g) => g,
    };
    match cutter(stream, o, storage) {
        Next::Piece(end) => {
            let want = dlt_message(&stream[o..end], filter, storage);
            match (&got, &want) {
                (Ok(Some(pm)), Ok((_, w))) => {
                    if !same(pm, w) {
                        return Err(format!("result {} (stream bytes {}..{}) is {} but parsing that piece gives {}", idx, o, end, short(pm), short(w)));
                    }
                    match pm {
                        ParsedMessage::Item(_) => stats.messages += 1,
                        _ => stats.filtered += 1,
                    }
                    Ok(Some(end))
                }
                (Err(e), Err(w)) => {
                    if class(e) != class(w) {
                        return Err(format!("result {} (stream bytes {}..{}) is {} but parsing that piece gives {}", idx, o, end, class(e), class(w)));
                    }
                    stats.piece_errors += 1;
                    // the statement does not say what follows a piece that does not parse; the readers
                    // have consumed it, so the next piece is expected next
                    Ok(Some(end))
                }
                (Ok(None), _) => Err(format!("result {} is end-of-stream but the complete piece at bytes {}..{} of {} is still to come", idx, o, end, stream.len())),
                (Ok(Some(pm)), Err(w)) => Err(format!("result {} is {} but parsing the piece at {}..{} gives {}", idx, short(pm), o, end, class(w))),
                (Err(e), Ok((_, w))) => Err(format!("result {} is {:?} but the piece at bytes {}..{} parses to {}", idx, e, o, end, short(w))),
            }
        }
        Next::CleanEnd => match got {
            Ok(None) => Ok(None),
            other => Err(format!("after the last complete message (offset {} of {}) the reader returned {} instead of end-of-stream", o, stream.len(), match other { Ok(Some(pm)) => short(&pm), Err(e) => class(&e).to_string(), Ok(None) => unreachable!() })),
        },
        Next::TruncatedTail => match got {
            Ok(Some(pm)) => Err(format!("the truncated tail at offset {} of {} yielded {} (must be end-of-stream or an error)", o, stream.len(), short(&pm))),
            _ => Ok(None),
        },
        Next::ShortLen => Ok(None),
    }
}

pub fn run_blocking(stream: &Arc<Vec<u8>>, storage: bool, pat: Pattern, cap: Cap, filter: Option<&ProcessedDltFilterConfig>) -> Result<BulkStats, String> {
    use dlt_core::read::{read_message, DltMessageReader};
    let src = PatternSource::new(stream.clone(), pat);
    let counters = src.counters.clone();
    let mut reader = match cap {
        Cap::Default => DltMessageReader::new(src, storage),
        Cap::Minimal => DltMessageReader::with_capacity(65_551, 65_551, src, storage),
        Cap::Custom(c, m) => DltMessageReader::with_capacity(c, m, src, storage),
    };
    let mut stats = BulkStats::default();
    let mut o = 0usize;
    let mut idx = 0u64;
    loop {
        let got = catch(|| read_message(&mut reader, filter));
        match step(stream, o, storage, filter, idx, got, &mut stats)? {
            Some(n) => o = n,
            None => break,
        }
        idx += 1;
    }
    let c = counters.get();
    stats.deliveries = c.0;
    stats.disturbances = c.1;
    Ok(stats)
}

pub fn run_async(stream: &Arc<Vec<u8>>, storage: bool, pat: Pattern, cap: Cap, filter: Option<&ProcessedDltFilterConfig>) -> Result<BulkStats, String> {
    use dlt_core::stream::{read_message, DltStreamReader};
    use std::future::Future;
    let src = PatternSource::new(stream.clone(), pat);
    let counters = src.counters.clone();
    let mut reader = match cap {
        Cap::Default => DltStreamReader::new(src, storage),
        Cap::Minimal => DltStreamReader::with_capacity(65_551, 65_551, src, storage),
        Cap::Custom(c, m) => DltStreamReader::with_capacity(c, m, src, storage),
    };
    // a waker that counts: the scripted source wakes synchronously before it answers Pending, so
    // a poll that returns Pending without any wake-up since it started has arranged no wake-up
    // at all and would hang every wake-driven executor
    let wakes = Arc::new(CountWaker::default());
    let waker = futures::task::waker(wakes.clone());
    let mut cx = Context::from_waker(&waker);
    let mut stats = BulkStats::default();
    let mut o = 0usize;
    let mut idx = 0u64;
    // every Pending comes from the source, which disturbs at most once per delivering read
    let budget: u64 = 4 * (stream.len() as u64 / pat.chunk.max(1) as u64 + 16) + 1000;
    let mut polls = 0u64;
    loop {
        let got = catch(|| {
            let mut fut = Box::pin(read_message(&mut reader, filter));
            loop {
                let before = wakes.0.load(std::sync::atomic::Ordering::Relaxed);
                match fut.as_mut().poll(&mut cx) {
                    Poll::Ready(r) => return Ok(r),
                    Poll::Pending => {
                        if wakes.0.load(std::sync::atomic::Ordering::Relaxed) == before {
                            return Err("lost wake-up");
                        }
                        polls += 1;
                        if polls > budget {
                            return Err("livelock");
                        }
                    }
                }
            }
        });
        let got = match got {
            Ok(Err("lost wake-up")) => return Err(format!("at result {} the read_message future returned Poll::Pending without any wake-up having been arranged (lost wake-up: a wake-driven executor would never poll it again)", idx)),
            Ok(Err(_)) => return Err(format!("a read_message future was still pending after {} polls in total (livelock) at result {}", budget, idx)),
            Ok(Ok(r)) => Ok(r),
            Err(p) => Err(p),
        };
        match step(stream, o, storage, filter, idx, got, &mut stats)? {
            Some(n) => o = n,
            None => break,
        }
        idx += 1;
    }
    let c = counters.get();
    stats.deliveries = c.0;
    stats.disturbances = c.1;
    Ok(stats)
}

#[derive(Default)]
pub struct CountWaker(pub std::sync::atomic::AtomicU64);
impl futures::task::ArcWake for CountWaker {
    fn wake_by_ref(arc_self: &Arc<Self>) {
        arc_self.0.fetch_add(1, std::sync::atomic::Ordering::Relaxed);
    }
}

/// A virtual stream: `base` (a whole number of messages) repeated `repeat` times.  Every result must
/// be the message at that position of the base; after total/len(base)*messages results: end of stream.
pub fn run_huge(is_async: bool, base: &Arc<Vec<u8>>, repeat: u64, storage: bool, pat: Pattern, cap: Cap) -> Result<BulkStats, String> {
    // expected pieces of one repetition
    let mut ends = vec![];
    let mut o = 0usize;
    while let Next::Piece(e) = cutter(base, o, storage) {
        ends.push(e);
        o = e;
    }
    assert!(o == base.len(), "base must be a whole number of messages");
    let expected: Vec<ParsedMessage> = {
        let mut v = vec![];
        let mut s = 0usize;
        for e in &ends {
            // the oracle is "the reader returns what slice parsing returns"; where slice parsing of a
            // base message fails there is no expectation to compare with (not judged here: C01/C02)
            match catch(|| dlt_message(&base[s..*e], None, storage).map(|r| r.1)) {
                Ok(Ok(m)) => v.push(m),
                _ => return Ok(BulkStats::default()),
            }
            s = *e;
        }
        v
    };
    let per = ends.len() as u64;
    let total = per * repeat;
    let mut src = PatternSource::new(base.clone(), pat);
    src.repeat = repeat;
    let counters = src.counters.clone();
    let mut stats = BulkStats::default();
    let judge = |idx: u64, got: Result<Result<Option<ParsedMessage>, DltParseError>, String>| -> Result<bool, String> {
        match got {
            Err(p) => Err(format!("the reader PANICKED ({}) at result {} of {} (stream offset about {} bytes)", p, idx, total, (idx / per) as u128 * base.len() as u128)),
            Ok(Ok(None)) if idx == total => Ok(false),
            Ok(Ok(Some(pm))) if idx < total && same(&pm, &expected[(idx % per) as usize]) => Ok(true),
            Ok(other) => Err(format!("result {} of {} is {} (expected {})", idx, total, match other { Ok(Some(pm)) => short(&pm), Ok(None) => "end-of-stream".to_string(), Err(e) => class(&e).to_string() }, if idx == total { "end-of-stream".to_string() } else { format!("message {} of the base", idx % per) })),
        }
    };
    if is_async {
        use dlt_core::stream::{read_message, DltStreamReader};
        use std::future::Future;
        let mut reader = match cap {
            Cap::Default => DltStreamReader::new(src, storage),
            Cap::Minimal => DltStreamReader::with_capacity(65_551, 65_551, src, storage),
            Cap::Custom(c, m) => DltStreamReader::with_capacity(c, m, src, storage),
        };
        let wakes = Arc::new(CountWaker::default());
        let waker = futures::task::waker(wakes.clone());
        let mut cx = Context::from_waker(&waker);
        let mut idx = 0u64;
        loop {
            let got = catch(|| {
                let mut fut = Box::pin(read_message(&mut reader, None));
                let mut polls = 0u64;
                loop {
                    let before = wakes.0.load(std::sync::atomic::Ordering::Relaxed);
                    match fut.as_mut().poll(&mut cx) {
                        Poll::Ready(r) => return Ok(r),
                        Poll::Pending => {
                            polls += 1;
                            if wakes.0.load(std::sync::atomic::Ordering::Relaxed) == before || polls > 1_000_000 {
                                return Err(());
                            }
                        }
                    }
                }
            });
            let got = match got {
                Ok(Err(())) => return Err(format!("at result {} the future returned Pending without a wake-up, or never completed", idx)),
                Ok(Ok(r)) => Ok(r),
                Err(p) => Err(p),
            };
            if !judge(idx, got)? {
                break;
            }
            stats.messages += 1;
            idx += 1;
        }
    } else {
        use dlt_core::read::{read_message, DltMessageReader};
        let mut reader = match cap {
            Cap::Default => DltMessageReader::new(src, storage),
            Cap::Minimal => DltMessageReader::with_capacity(65_551, 65_551, src, storage),
            Cap::Custom(c, m) => DltMessageReader::with_capacity(c, m, src, storage),
        };
        let mut idx = 0u64;
        loop {
            let got = catch(|| read_message(&mut reader, None));
            if !judge(idx, got)? {
                break;
            }
            stats.messages += 1;
            idx += 1;
        }
    }
    let c = counters.get();
    stats.deliveries = c.0;
    stats.disturbances = c.1;
    Ok(stats)
}

pub fn run_reader(is_async: bool, stream: &Arc<Vec<u8>>, storage: bool, pat: Pattern, cap: Cap, filter: Option<&ProcessedDltFilterConfig>) -> Result<BulkStats, String> {
    if is_async {
        run_async(stream, storage, pat, cap, filter)
    } else {
        run_blocking(stream, storage, pat, cap, filter)
    }
}

// -------------------------------------------------------------------------------------------
// stream builders
// -------------------------------------------------------------------------------------------

const STORAGE_HDR: &[u8; 16] = b"DLT\x01\x01\x02\x03\x04\x05\x06\x07\x00ECU\0";

/// A complete message of exactly `len` bytes (4 <= len <= 65535) without extended header: for
/// len >= 8 a non-verbose message (4-byte id + len-8 data bytes); for len 4..7 a header-only piece
/// that does not parse.  `seed` varies the content.
pub fn message_of_len(len: usize, seed: usize, storage: bool, out: &mut Vec<u8>) {
    if storage {
        out.extend_from_slice(STORAGE_HDR);
    }
    out.push(0x20);
    out.push(seed as u8);
    out.push((len >> 8) as u8);
    out.push(len as u8);
    for i in 4..len {
        out.push((i * 7 + seed) as u8);
    }
}
/// A 33-byte verbose log message (extended header, one u32 argument); level varies with `seed`.
pub fn verbose_message(seed: usize, storage: bool, out: &mut Vec<u8>) {
    if storage {
        out.extend_from_slice(STORAGE_HDR);
    }
    let level = (seed % 6 + 1) as u8;
    out.extend_from_slice(&[0x35, seed as u8, 0x00, 0x1E, b'E', b'C', b'U', b'1', 0, 0, 0, seed as u8]);
    out.extend_from_slice(&[0x01 | (level << 4), 0x01, b'A', b'P', b'P', if seed % 2 == 0 { b'1' } else { b'2' }, b'C', b'T', b'X', 0]);
    out.extend_from_slice(&[0x43, 0x00, 0x00, 0x00, seed as u8, 2, 3, 4]);
}

/// the C07 / C08 / C09 bulk families; `prefix` is "c07", "c08" or "c09"
pub fn run_bulk_families(ctx: &Ctx, prefix: &str, is_async: bool) {
    run_bulk_selected(ctx, prefix, is_async, &["len_sweep", "long_streams", "default_capacity", "disturbed", "small_capacity", "hostile_filtered", "counters", "storage_damage", "huge"])
}

pub fn run_bulk_selected(ctx: &Ctx, prefix: &str, is_async: bool, which: &[&str]) {
    let tier = ctx.tier;
    let who = if is_async { "async reader" } else { "blocking reader" };
    let filters: Vec<(&'static str, Option<ProcessedDltFilterConfig>)> = crate::p04_consume::filter_configs().into_iter().take(4).collect();
    let viol = |loc: &mut Local, key: &str, what: String, why: String| {
        loc.outcome("DISAGREEMENT");
        loc.violation(key.to_string(), format!("{}: {}\n    case: {}", who, why, what), serde_json::json!({"case": what}));
    };
    let key_of = |why: &str| -> String {
        if why.contains("PANICKED") {
            format!("{} panics on a large stream", who)
        } else if why.contains("livelock") || why.contains("lost wake-up") {
            format!("{} never completes", who)
        } else {
            format!("{} result differs from cutting the stream", who)
        }
    };
    // (1) every declared length
    if which.contains(&"len_sweep") {
        let lens: Vec<usize> = match tier {
            Tier::Quick => (4..=9300).chain((9301..65_536).filter(|l| l % 11 == 0 || (l + 40) % 4096 < 80 || (l + 40) % 10_240 < 80 || *l >= 65_400)).collect(),
            Tier::Thorough => (4..=65_535).collect(),
        };
        let pats = [Pattern { chunk: 0, disturb_every: 0 }, Pattern { chunk: 4093, disturb_every: 3 }, Pattern { chunk: 1460, disturb_every: 0 }];
        let sp = Space::new(&[lens.len(), 2, pats.len()]);
        let s2 = sp.clone();
        let lens = &lens;
        ctx.run_family(Family::new(format!("{}.bulk.len_sweep", prefix), sp.size(), format!("a message of EVERY declared length L in a set of {} lengths ({}) between two short messages x storage mode x 3 schedules (unlimited; <=4093 bytes with a disturbance before every 3rd read; <=1460 bytes); minimal-capacity reader", lens.len(), if tier == Tier::Thorough { "all of 4..=65535" } else { "all of 4..=9300, every 11th above, +-40 around every multiple of 4096 and 10240, 65400..=65535" }), move |i, loc| {
            let c = s2.coords(i);
            let (l, storage, pat) = (lens[c[0]], c[1] == 1, pats[c[2]]);
            let mut s = vec![];
            verbose_message(l, storage, &mut s);
            message_of_len(l, l / 3, storage, &mut s);
            verbose_message(l + 1, storage, &mut s);
            let s = Arc::new(s);
            loc.evals += 1;
            loc.traces += 1;
            loc.state(mix(l as u64, i), true);
            match run_reader(is_async, &s, storage, pat, Cap::Minimal, None) {
                Ok(st) => {
                    loc.transitions += st.deliveries + st.disturbances;
                    loc.outcome("stream delivered as cut");
                }
                Err(why) => viol(loc, &key_of(&why), format!("short message, message of declared length {}, short message{}; {}", l, if storage { ", storage headers" } else { "" }, pat.describe(is_async)), why),
            }
        }).trace(1500));
    }
    // (2) long streams against the minimal-capacity buffers: every phase of the buffer boundary
    if which.contains(&"long_streams") {
        let sizes: Vec<usize> = match tier {
            Tier::Quick => vec![8, 33, 100, 298, 1000, 4104, 40_000],
            Tier::Thorough => vec![8, 9, 33, 100, 255, 256, 298, 1000, 4095, 4104, 8200, 16_384, 40_000, 65_535],
        };
        let pats = [Pattern { chunk: 0, disturb_every: 0 }, Pattern { chunk: 1460, disturb_every: 0 }, Pattern { chunk: 7, disturb_every: 2 }, Pattern { chunk: 65_536, disturb_every: 1 }];
        let phases = tier.pick(40usize, 128usize);
        let sp = Space::new(&[sizes.len(), phases, 2, pats.len(), filters.len()]);
        let s2 = sp.clone();
        let (sizes, filters) = (&sizes, &filters);
        ctx.run_family(Family::new(format!("{}.bulk.long_streams", prefix), sp.size(), format!("streams of more than twice the reader's buffer capacity (> 131102 bytes): a first message whose length shifts the phase, then messages of size S (non-verbose of exactly S bytes alternating with 33-byte verbose log messages of varying level / application id) for S in {:?} x {} phases (the buffer boundary falls on every part of a message) x storage mode x 4 schedules (unlimited; <=1460; <=7 with a disturbance before every 2nd read; <=65536 with a disturbance before every read) x 4 filter configurations (none, keep all, drop all, minimum level)", sizes, phases), move |i, loc| {
            let c = s2.coords(i);
            let (size, phase, storage, pat, f) = (sizes[c[0]], c[1], c[2] == 1, pats[c[3]], &filters[c[4]]);
            // byte-at-a-time style schedules only on the smaller streams' share
            if pat.chunk == 7 && phase % 8 != 0 {
                return;
            }
            let unit = size + if storage { 16 } else { 0 };
            let shift = if phases >= unit { phase % unit } else { phase * unit / phases };
            let mut s = vec![];
            message_of_len(8 + shift.min(65_527), phase, storage, &mut s);
            let mut k = 0usize;
            while s.len() < 131_102 + 2 * unit + 100 {
                if k % 3 == 2 {
                    verbose_message(k, storage, &mut s);
                } else {
                    message_of_len(size, k, storage, &mut s);
                }
                k += 1;
            }
            let s = Arc::new(s);
            loc.evals += 1;
            loc.traces += 1;
            loc.state(i, true);
            match run_reader(is_async, &s, storage, pat, Cap::Minimal, f.1.as_ref()) {
                Ok(st) => {
                    loc.transitions += st.deliveries + st.disturbances;
                    loc.outcome_n("messages delivered", st.messages);
                    loc.outcome_n("messages filtered out", st.filtered);
                }
                Err(why) => viol(loc, &key_of(&why), format!("{} bytes: first message of {} bytes, then messages of {} bytes alternating with 33-byte log messages{}; {}; filter: {}", s.len(), 8 + shift, size, if storage { ", storage headers" } else { "" }, pat.describe(is_async), f.0), why),
            }
        }).trace(60));
    }
    // (2z) messages whose first four bytes spell a magic number: the storage pattern, the serial
    // header pattern and their neighbours as HTYP / MCNT / LEN of a standard header (no storage mode:
    // the bytes ARE the header; storage mode: they follow a storage header)
    if which.contains(&"len_sweep") {
        let magics: Vec<[u8; 4]> = vec![*b"DLT\x01", *b"DLS\x01", *b"DLT\x02", *b"DLS\x00", *b"DLT\x00", [0x44, 0x4C, 0x00, 0x08], [0x44, 0x00, 0x53, 0x01], [0x00, 0x4C, 0x53, 0x01], *b"NWST"];
        let sp = Space::new(&[magics.len(), 2, 3, 2]);
        let s2 = sp.clone();
        let magics = &magics;
        ctx.run_family(Family::new(format!("{}.bulk.magic_headers", prefix), sp.size(), "a message whose standard header (HTYP, MCNT, LEN) spells DLT\\x01 / DLS\\x01 / near misses, with the body its LEN declares, between ordinary messages x storage mode x {first, middle, last in the stream} x 2 schedules: delivered as cut like any other".to_string(), move |i, loc| {
            let c = s2.coords(i);
            let (m, storage, place) = (magics[c[0]], c[1] == 1, c[2]);
            let pat = if c[3] == 0 { Pattern { chunk: 0, disturb_every: 0 } } else { Pattern { chunk: 7, disturb_every: 3 } };
            let len = ((m[2] as usize) << 8) | m[3] as usize;
            let mut special = vec![];
            if storage {
                special.extend_from_slice(STORAGE_HDR);
            }
            special.extend_from_slice(&m);
            for k in 4..len.max(4) {
                special.push(if k % 9 == 8 { 0 } else { 0x20 + (k % 64) as u8 });
            }
            let mut s = vec![];
            if place > 0 {
                verbose_message(1, storage, &mut s);
            }
            s.extend_from_slice(&special);
            if place < 2 {
                verbose_message(2, storage, &mut s);
                verbose_message(3, storage, &mut s);
            }
            let s = Arc::new(s);
            loc.evals += 1;
            loc.traces += 1;
            loc.state(i + 0x2f00_0000, true);
            match run_reader(is_async, &s, storage, pat, Cap::Minimal, None) {
                Ok(st) => {
                    loc.transitions += st.deliveries + st.disturbances;
                    loc.outcome_n("results as the slice parser gives them", st.messages + st.piece_errors);
                }
                Err(why) => viol(loc, &key_of(&why), format!("standard header bytes {:02x?} (declared length {}), storage mode {}, place {}; {}", m, len, storage, place, pat.describe(is_async)), why),
            }
        }));
    }
    // (2y) hostile PAYLOADS through the reader: messages whose framing is fine but whose argument
    // length fields are extreme or inconsistent (pairs of 16-bit lengths, invalid type infos, filled
    // invalid dialect) - the reader hands each piece to the parser and must survive whatever it does
    if which.contains(&"len_sweep") {
        let fams: Vec<crate::inputs::ByteFamily> = crate::inputs::decode_inputs(tier).into_iter().filter(|f| f.name == "dialect.length_pairs" || f.name == "dialect.invalid_filled" || f.name == "dialect.strings").collect();
        for f in fams {
            let n = f.size;
            let name = f.name.clone();
            let gen = f.gen;
            ctx.run_family(Family::new(format!("{}.bulk.hostile_payloads.{}", prefix, name), n * 2, format!("every input of the decode family '{}' as a message between two ordinary ones x 2 schedules (no storage mode): results as the slice parser gives them, no panic", name), move |i, loc| {
                let input = gen(i / 2);
                if input.len() < 4 {
                    return;
                }
                let pat = if i % 2 == 0 { Pattern { chunk: 0, disturb_every: 0 } } else { Pattern { chunk: 5, disturb_every: 3 } };
                let mut s = vec![];
                verbose_message(1, false, &mut s);
                s.extend_from_slice(&input);
                verbose_message(2, false, &mut s);
                let s = Arc::new(s);
                loc.evals += 1;
                loc.traces += 1;
                loc.state(i + 0x2e00_0000, true);
                match run_reader(is_async, &s, false, pat, Cap::Minimal, None) {
                    Ok(st) => {
                        loc.transitions += st.deliveries + st.disturbances;
                        loc.outcome_n("results as the slice parser gives them", st.messages + st.piece_errors);
                    }
                    Err(why) => viol(loc, &key_of(&why), format!("hostile payload {} of family {}; {}", hex_short(&input), name, pat.describe(is_async)), why),
                }
            }));
        }
    }
    // (3a) the default constructor on the largest messages: its own maximum-length constant, not the
    // one the minimal-capacity readers of the length sweep are built with
    if which.contains(&"default_capacity") {
        let lens: Vec<usize> = (65_400..=65_535).chain([4, 5, 19, 20, 21, 4096, 32_768, 65_399]).collect();
        let sp = Space::new(&[lens.len(), 2, 2]);
        let s2 = sp.clone();
        let lens = &lens;
        ctx.run_family(Family::new(format!("{}.bulk.default_top_lengths", prefix), sp.size(), "the default constructor (default buffer and maximum-length constants) on [short, a message of EVERY declared length 65400..=65535 (and 8 smaller ones), short] x storage mode x 2 schedules".to_string(), move |i, loc| {
            let c = s2.coords(i);
            let (l, storage) = (lens[c[0]], c[1] == 1);
            let pat = if c[2] == 0 { Pattern { chunk: 0, disturb_every: 0 } } else { Pattern { chunk: 4093, disturb_every: 3 } };
            let mut s = vec![];
            verbose_message(l, storage, &mut s);
            message_of_len(l, l / 3, storage, &mut s);
            verbose_message(l + 1, storage, &mut s);
            let s = Arc::new(s);
            loc.evals += 1;
            loc.traces += 1;
            loc.state(mix(l as u64, i + 0x3a00_0000), true);
            match run_reader(is_async, &s, storage, pat, Cap::Default, None) {
                Ok(st) => {
                    loc.transitions += st.deliveries + st.disturbances;
                    loc.outcome("stream delivered as cut");
                }
                Err(why) => viol(loc, &key_of(&why), format!("default constructor, declared length {}, storage mode {}; {}", l, storage, pat.describe(is_async)), why),
            }
        }));
    }
    // (3) the default constructor: streams longer than its 10 MiB buffer
    if which.contains(&"default_capacity") {
        let sizes: Vec<usize> = match tier {
            Tier::Quick => vec![14, 100, 4104],
            Tier::Thorough => vec![8, 14, 100, 298, 4104, 40_000],
        };
        let phases = tier.pick(12usize, 48usize);
        let pats = [Pattern { chunk: 0, disturb_every: 0 }, Pattern { chunk: 65_536, disturb_every: 0 }, Pattern { chunk: 1_000_003, disturb_every: 2 }];
        let sp = Space::new(&[sizes.len(), phases, 2, pats.len(), 2]);
        let s2 = sp.clone();
        let (sizes, filters) = (&sizes, &filters);
        ctx.run_family(Family::new(format!("{}.bulk.default_capacity", prefix), sp.size(), format!("the default constructor (10 MiB buffer) on streams of 10 MiB + 300 KiB: messages of size S in {:?} alternating with 33-byte log messages, x {} phases of the 10 MiB boundary within a message x storage mode x 3 schedules x {{no filter, drop all}}", sizes, phases), move |i, loc| {
            let c = s2.coords(i);
            let (size, phase, storage, pat, f) = (sizes[c[0]], c[1], c[2] == 1, pats[c[3]], &filters[if c[4] == 0 { 0 } else { 2 }]);
            let unit = size + if storage { 16 } else { 0 };
            let shift = if phases >= unit { phase % unit } else { phase * unit / phases };
            let mut s = Vec::with_capacity(10 * 1024 * 1024 + 400_000);
            message_of_len(8 + shift.min(65_527), phase, storage, &mut s);
            let mut k = 0usize;
            while s.len() < 10 * 1024 * 1024 + 300 * 1024 {
                if k % 5 == 4 {
                    verbose_message(k, storage, &mut s);
                } else {
                    message_of_len(size, k, storage, &mut s);
                }
                k += 1;
            }
            let s = Arc::new(s);
            loc.evals += 1;
            loc.traces += 1;
            loc.state(i, true);
            match run_reader(is_async, &s, storage, pat, Cap::Default, f.1.as_ref()) {
                Ok(st) => {
                    loc.transitions += st.deliveries + st.disturbances;
                    loc.outcome_n("messages delivered", st.messages);
                    loc.outcome_n("messages filtered out", st.filtered);
                }
                Err(why) => viol(loc, &key_of(&why), format!("default-capacity reader, {} bytes: first message of {} bytes, then messages of {} bytes{}; {}; filter: {}", s.len(), 8 + shift, size, if storage { ", storage headers" } else { "" }, pat.describe(is_async), f.0), why),
            }
        }).chunk(1).trace(2));
    }
    // (4) disturbance-heavy schedules on large messages
    if which.contains(&"disturbed") {
        let lens = [300usize, 4200, 12_000, 65_535];
        let pats = [Pattern { chunk: 1, disturb_every: 1 }, Pattern { chunk: 1, disturb_every: 2 }, Pattern { chunk: 1, disturb_every: 0 }, Pattern { chunk: 7, disturb_every: 1 }, Pattern { chunk: 4096, disturb_every: 1 }];
        let sp = Space::new(&[lens.len(), 2, pats.len()]);
        let s2 = sp.clone();
        ctx.run_family(Family::new(format!("{}.bulk.disturbed", prefix), sp.size(), "short message, a message of 300 / 4200 / 12000 / 65535 bytes, short message x storage mode x {1 byte per read with a disturbance before every read, before every 2nd read, none; <=7 bytes with a disturbance before every read; <=4096 likewise}".to_string(), move |i, loc| {
            let c = s2.coords(i);
            let (l, storage, pat) = (lens[c[0]], c[1] == 1, pats[c[2]]);
            let mut s = vec![];
            verbose_message(1, storage, &mut s);
            message_of_len(l, 5, storage, &mut s);
            verbose_message(2, storage, &mut s);
            let s = Arc::new(s);
            loc.evals += 1;
            loc.traces += 1;
            loc.state(i, true);
            match run_reader(is_async, &s, storage, pat, Cap::Minimal, None) {
                Ok(st) => {
                    loc.transitions += st.deliveries + st.disturbances;
                    loc.outcome_n("disturbances delivered", st.disturbances);
                }
                Err(why) => viol(loc, &key_of(&why), format!("short message, message of {} bytes, short message{}; {}", l, if storage { ", storage headers" } else { "" }, pat.describe(is_async)), why),
            }
        }).chunk(1));
    }
    // (6) hostile length fields x every header-type class x filters (filter shortcuts that look at
    // the header alone must not trust a declared length)
    if which.contains(&"hostile_filtered") {
        let all_filters = crate::p04_consume::filter_configs();
        let lens: Vec<usize> = vec![0, 1, 2, 3, 4, 5, 6, 7, 8, 9, 11, 12, 13, 14, 15, 16, 17, 18, 21, 22, 25, 26, 30, 65_535];
        let pats = [Pattern { chunk: 0, disturb_every: 0 }, Pattern { chunk: 3, disturb_every: 2 }];
        let sp = Space::new(&[64, lens.len(), 3, 2, all_filters.len(), pats.len()]);
        let s2 = sp.clone();
        let (lens, all_filters) = (&lens, &all_filters);
        ctx.run_family(Family::new(format!("{}.bulk.hostile_filtered", prefix), sp.size(), format!("a good message, then a header with EVERY combination of the five HTYP flag bits (x 2 versions) declaring LEN in {:?} followed by 0 / 6 / 40 bytes, x storage mode x 5 filter configurations (none, keep all, drop all, level + ECU, context ids with a count above the set size) x 2 schedules", lens), move |i, loc| {
            let c = s2.coords(i);
            let htyp = ((c[0] & 0x1F) as u8) | if c[0] & 0x20 != 0 { 0x20 } else { 0x40 };
            let (len, follow, storage, f, pat) = (lens[c[1]], [0usize, 6, 40][c[2]], c[3] == 1, &all_filters[c[4]], pats[c[5]]);
            let mut s = vec![];
            verbose_message(c[0], storage, &mut s);
            if storage {
                s.extend_from_slice(STORAGE_HDR);
            }
            s.extend_from_slice(&[htyp, 0x11, (len >> 8) as u8, len as u8]);
            s.extend((0..follow).map(|k| if k % 5 == 4 { 0u8 } else { b'E' + (k % 7) as u8 }));
            let s = Arc::new(s);
            loc.evals += 1;
            loc.traces += 1;
            loc.state(i, true);
            match run_reader(is_async, &s, storage, pat, Cap::Minimal, f.1.as_ref()) {
                Ok(st) => {
                    loc.transitions += st.deliveries + st.disturbances;
                    loc.outcome("hostile header handled as the slice parser does");
                }
                Err(why) => viol(loc, &key_of(&why), format!("good message, then HTYP {:#04x} LEN {} + {} bytes{}; {}; filter: {}", htyp, len, follow, if storage { ", storage headers" } else { "" }, pat.describe(is_async), f.0), why),
            }
        }).trace(100_000));
    }
    // (7) message counters of one sender counting through 255 -> 0 (per-sender bookkeeping)
    if which.contains(&"counters") {
        let sp = Space::new(&[2, 3, 4]);
        let s2 = sp.clone();
        ctx.run_family(Family::new(format!("{}.bulk.counters", prefix), sp.size(), "700 consecutive log messages of one sender (same ECU id, session id, application and context id) whose message counter runs 0,1,..,255,0,.. / 250..255,0.. with a second sender interleaved / every counter value followed by itself, x storage mode x 4 schedules".to_string(), move |i, loc| {
            let c = s2.coords(i);
            let storage = c[0] == 1;
            let pats = [Pattern { chunk: 0, disturb_every: 0 }, Pattern { chunk: 17, disturb_every: 0 }, Pattern { chunk: 1, disturb_every: 1 }, Pattern { chunk: 4096, disturb_every: 2 }];
            let mut s = vec![];
            for k in 0..700usize {
                let (counter, sender) = match c[1] {
                    0 => (k as u8, 0usize),
                    1 => ((250 + k / 2) as u8, k % 2),
                    _ => ((k / 2) as u8, 0),
                };
                if storage {
                    s.extend_from_slice(STORAGE_HDR);
                }
                // HTYP 0x3D: UEH | WEID | WSID | WTMS, version 1
                s.extend_from_slice(&[0x3D, counter, 0x00, 0x22, b'E', b'C', b'U', b'1' + sender as u8, 0, 0, 0, 7 + sender as u8, 0, 0, (k >> 8) as u8, k as u8]);
                s.extend_from_slice(&[0x41, 0x01, b'A', b'P', b'P', 0, b'C', b'T', b'X', 0]);
                s.extend_from_slice(&[0x43, 0x00, 0x00, 0x00, k as u8, 2, 3, 4]);
            }
            let s = Arc::new(s);
            loc.evals += 1;
            loc.traces += 1;
            loc.state(i, true);
            match run_reader(is_async, &s, storage, pats[c[2]], Cap::Minimal, None) {
                Ok(st) => {
                    loc.transitions += st.deliveries + st.disturbances;
                    loc.outcome_n("messages delivered", st.messages);
                }
                Err(why) => viol(loc, &key_of(&why), format!("700 messages of one sender, counter shape {}{}; {}", c[1], if storage { ", storage headers" } else { "" }, pats[c[2]].describe(is_async)), why),
            }
        }).chunk(1).trace(24));
    }
    // (8) storage mode with a damaged storage-header magic: the piece is still cut at 16 + LEN and
    // parsed as a slice (which resynchronises inside the piece)
    if which.contains(&"storage_damage") {
        let rl = {
            let mut rec = vec![];
            verbose_message(3, true, &mut rec);
            rec.len()
        };
        let covers = 2 * rl + 6;
        let sp = Space::new(&[5, covers, 3, 2]);
        let s2 = sp.clone();
        ctx.run_family(Family::new(format!("{}.bulk.storage_damage", prefix), sp.size(), format!("storage mode: a good record, a record whose storage-header magic has byte j damaged (j in 0..4, or none) and whose declared length covers EVERY number 0..={} of bytes of the following records (ending inside their pattern, storage header, headers, payload, exactly at a record end, inside the second record), then good records x 3 damage values x 2 schedules", covers - 1), move |i, loc| {
            let c = s2.coords(i);
            let cover = c[1];
            let mut s = vec![];
            verbose_message(1, true, &mut s);
            let mut hdr = STORAGE_HDR.to_vec();
            if c[0] < 4 {
                hdr[c[0]] = [0x00, 0x58, 0xFF][c[2]];
            }
            s.extend_from_slice(&hdr);
            let len = 4 + 4 + cover;
            s.extend_from_slice(&[0x20, 9, (len >> 8) as u8, len as u8, 1, 2, 3, 4]);
            for k in 0..4 {
                verbose_message(10 + k, true, &mut s);
            }
            let s = Arc::new(s);
            let pat = if c[3] == 0 { Pattern { chunk: 0, disturb_every: 0 } } else { Pattern { chunk: 5, disturb_every: 3 } };
            loc.evals += 1;
            loc.traces += 1;
            loc.state(i, true);
            match run_reader(is_async, &s, true, pat, Cap::Minimal, None) {
                Ok(st) => {
                    loc.transitions += st.deliveries + st.disturbances;
                    loc.outcome_n("results as the slice parser gives them", st.messages + st.piece_errors);
                }
                Err(why) => viol(loc, &key_of(&why), format!("storage mode, magic byte {} damaged to {:#04x}, declared length covering {} bytes of the following records; {}", c[0], if c[0] < 4 { hdr[c[0]] } else { 0 }, cover, pat.describe(is_async)), why),
            }
        }));
    }
    // (9) a huge virtual stream through ONE reader instance (offsets and counters beyond 2^32)
    if which.contains(&"huge") {
        let sizes: Vec<u64> = match tier {
            Tier::Quick => vec![80 << 20],
            Tier::Thorough => vec![(4u64 << 30) + (3 << 20)],
        };
        let sp = Space::new(&[sizes.len(), 2, 2]);
        let s2 = sp.clone();
        let sizes = &sizes;
        ctx.run_family(Family::new(format!("{}.bulk.huge", prefix), sp.size(), format!("ONE reader instance fed a virtual stream of {:?} bytes (a base of 65535-byte, 4104-byte and 33-byte messages repeated): every result is the message at that position, then end of stream; x storage mode x 2 schedules", sizes), move |i, loc| {
            let c = s2.coords(i);
            let storage = c[1] == 1;
            let mut base = vec![];
            for k in 0..6usize {
                message_of_len(65_535, k, storage, &mut base);
                verbose_message(k, storage, &mut base);
                message_of_len(4104, k + 9, storage, &mut base);
            }
            let repeat = sizes[c[0]] / base.len() as u64 + 1;
            let base = Arc::new(base);
            let pat = if c[2] == 0 { Pattern { chunk: 0, disturb_every: 0 } } else { Pattern { chunk: 1_000_003, disturb_every: 5 } };
            loc.evals += 1;
            loc.traces += 1;
            loc.state(i, true);
            match run_huge(is_async, &base, repeat, storage, pat, Cap::Default) {
                Ok(st) => {
                    loc.transitions += st.deliveries + st.disturbances;
                    loc.outcome_n("messages delivered", st.messages);
                }
                Err(why) => viol(loc, &key_of(&why), format!("virtual stream of {} x {} bytes{}; {}", repeat, base.len(), if storage { ", storage headers" } else { "" }, pat.describe(is_async)), why),
            }
        }).chunk(1).trace(0));
    }
    // (5) readers built with small capacities (every message still fits message_max_len)
    if which.contains(&"small_capacity") {
        let caps: Vec<(usize, usize)> = vec![(64, 64), (65, 64), (127, 64), (128, 64), (300, 300), (599, 300), (600, 300), (4096, 4096), (4097, 4096), (8191, 4096), (8192, 4096), (8193, 4096), (20_000, 4096)];
        let pats = [Pattern { chunk: 0, disturb_every: 0 }, Pattern { chunk: 7, disturb_every: 0 }, Pattern { chunk: 1, disturb_every: 2 }, Pattern { chunk: 1460, disturb_every: 3 }];
        // message sizes relative to message_max_len m (minus the storage header): tiny, a quarter, just over half, m-1, m
        let sp = Space::new(&[caps.len(), 5, 5, 5, 2, pats.len()]);
        let s2 = sp.clone();
        let caps = &caps;
        ctx.run_family(Family::new(format!("{}.bulk.small_capacity", prefix), sp.size(), format!("readers built with_capacity(buffer_capacity, message_max_len) for {:?}: ALL sequences of three messages with sizes in {{8, m/4, m/2+1, m-1, m}} (m = message_max_len minus the storage header), repeated to fill more than three buffers, x storage mode x 4 schedules", caps), move |i, loc| {
            let c = s2.coords(i);
            let (cap, max) = caps[c[0]];
            let storage = c[4] == 1;
            let m = max - if storage { 16 } else { 0 };
            let size_of = |k: usize| -> usize { [8, (m / 4).max(8), m / 2 + 1, m - 1, m][k].max(4) };
            let sizes = [size_of(c[1]), size_of(c[2]), size_of(c[3])];
            let pat = pats[c[5]];
            let mut s = vec![];
            let mut k = 0usize;
            while s.len() < 3 * cap + 2 * max || k < 6 {
                message_of_len(sizes[k % 3], k, storage, &mut s);
                k += 1;
            }
            let s = Arc::new(s);
            loc.evals += 1;
            loc.traces += 1;
            loc.state(i, true);
            match run_reader(is_async, &s, storage, pat, Cap::Custom(cap, max), None) {
                Ok(st) => {
                    loc.transitions += st.deliveries + st.disturbances;
                    loc.outcome_n("messages delivered", st.messages);
                }
                Err(why) => viol(loc, &key_of(&why), format!("with_capacity({}, {}), messages of {:?} bytes repeated ({} bytes){}; {}", cap, max, sizes, s.len(), if storage { ", storage headers" } else { "" }, pat.describe(is_async)), why),
            }
        }).trace(300));
    }
}
