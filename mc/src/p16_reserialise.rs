//! C16 -- re-serialising any parsed message is stable.
//! Space: the decode input space; every input on which parsing yields a message.
//! Oracle: if as_bytes(m).len() equals what m's own header declares (+16 with storage header) then
//! dlt_message(as_bytes(m)) == Ok((empty, Item(m2))), m2 bit-identical to m, as_bytes(m2) == as_bytes(m).
use crate::common::*;
use crate::inputs::*;
use crate::refmodel::*;
use dlt_core::parse::{dlt_message, ParsedMessage};
use serde_json::json;

pub fn judge(input: &[u8], with_storage: bool, loc: &mut Local) {
    loc.evals += 1;
    loc.transitions += 1;
    let m = match catch(|| dlt_message(input, None, with_storage)) {
        Ok(Ok((_, ParsedMessage::Item(m)))) => m,
        Ok(_) => {
            loc.outcome("no message (premise false)");
            loc.state(mix(loc.input_hash(input), with_storage as u64), false);
            return;
        }
        Err(_) => {
            loc.outcome("parser panic (judged by C03)");
            return;
        }
    };
    loc.traces += 1;
    let details = || json!({"input_hex": hex_short(input), "with_storage_header": with_storage, "message": fp(&m)});
    loc.transitions += 1;
    let ser = match catch(|| m.as_bytes()) {
        Ok(s) => s,
        Err(p) => {
            loc.violation("as_bytes panics on a parsed message", format!("Message::as_bytes panicked ({}) on the message parsed from {}: {}", p, hex_short(input), fp(&m)), details());
            return;
        }
    };
    let declared = m.header.overall_length() as usize + if m.storage_header.is_some() { 16 } else { 0 };
    if ser.len() != declared {
        loc.outcome("length premise false");
        loc.state(mix(loc.input_hash(input), with_storage as u64), false);
        return;
    }
    loc.state(mix(loc.input_hash(input), with_storage as u64), true);
    loc.transitions += 1;
    match catch(|| dlt_message(&ser, None, m.storage_header.is_some()).map(|(rest, pm)| (rest.len(), pm))) {
        Err(p) => loc.violation("re-parse panics", format!("dlt_message panicked ({}) on the re-serialisation {} of {}", p, hex_short(&ser), fp(&m)), details()),
        Ok(Err(e)) => {
            loc.outcome("re-parse fails");
            loc.violation("re-serialisation does not parse", format!("re-serialisation does not parse back ({:?}):\n    input:   {}\n    message: {}\n    written: {}", e, hex_short(input), fp(&m), hex_short(&ser)), details());
        }
        Ok(Ok((rest_len, ParsedMessage::Item(m2)))) => {
            if rest_len != 0 {
                loc.violation("re-parse leaves bytes over", format!("re-parse left {} bytes of the re-serialisation {} unconsumed", rest_len, hex_short(&ser)), details());
            } else if !same_message(&m2, &m) {
                loc.outcome("re-parse differs");
                loc.violation("re-parsed message differs", format!("re-serialisation parses to a different message:\n    input:  {}\n    first:  {}\n    second: {}\n    written: {}", hex_short(input), fp(&m), fp(&m2), hex_short(&ser)), details());
            } else {
                match catch(|| m2.as_bytes()) {
                    Ok(ser2) if ser2 == ser => {
                        loc.outcome("stable");
                        loc.sample(|| json!({"input": hex_short(input), "with_storage_header": with_storage, "reserialised": hex_short(&ser), "same_as_input": ser == input}));
                    }
                    Ok(ser2) => loc.violation("second serialisation differs", format!("serialising the re-parsed message gives {} instead of {}", hex_short(&ser2), hex_short(&ser)), details()),
                    Err(p) => loc.violation("as_bytes panics on a parsed message", format!("as_bytes panicked ({}) on the re-parsed message", p), details()),
                }
            }
        }
        Ok(Ok((_, other))) => loc.violation("re-parse is not a message", format!("re-parse returned {:?} for the re-serialisation {} of {}", other, hex_short(&ser), fp(&m)), details()),
    }
}

pub fn run(ctx: &Ctx) {
    ctx.enable_trace_pass(ctx.tier.pick(20000u64, 200000u64));
    ctx.set_rule("case = (byte string, storage mode) from the decode input space; non-trivial = parsing yields a message AND the re-serialisation has the length the message's own header declares (the premise of the property); the evidence lists how often the premise held per family");
    for f in decode_inputs(ctx.tier) {
        let gen = &f.gen;
        ctx.run_family(Family::new(format!("c16.{}", f.name), f.size * VARIANTS, format!("{} x 3 storage variants", f.about), move |i, loc| {
            let (input, mode) = variant(gen(i / VARIANTS), i % VARIANTS);
            judge(&input, mode, loc);
        }));
    }
    // history: parse + re-serialise a, then judge b, for all ordered pairs over a diverse input set
    // (writer- or parser-side memo tables must not leak from one message into the next)
    {
        let mut set: Vec<(Vec<u8>, bool)> = vec![];
        for f in decode_inputs(Tier::Quick) {
            let stride: u64 = match f.name.as_str() {
                "canon.u.single_arg" => 97,
                "canon.u.len_sweep" => 1201,
                "dialect.strings" | "dialect.type_info" => 997,
                "canon.u.msin" => 601,
                _ => 0,
            };
            if stride == 0 {
                continue;
            }
            let mut i = 0;
            while i < f.size {
                let (b, mode) = variant((f.gen)(i), i % VARIANTS);
                if b.len() <= 1200 {
                    set.push((b, mode));
                }
                i += stride;
            }
        }
        // byte-order twins with long names
        for big in [false, true] {
            for nl in [30usize, 31, 32, 33, 64] {
                let name = "n".repeat(nl);
                let m = crate::universe::msg_with(if big { 0x02 } else { 0 }, 1, Some(crate::universe::ext(MSTP_LOG, 4, "APP", "CTX")), RefPayload::Verbose(vec![crate::universe::mk_arg(RefKind::Uint(4), Some((&name, "unit")), 0, false, RefValue::U(0x0102_0304, 4), None)]), None);
                set.push((encode(&m).0, false));
            }
        }
        let n = set.len() as u64;
        let set = &set;
        ctx.run_family(Family::new("c16.history", n * n, format!("all {}^2 ordered pairs (a, b) over {} inputs (single arguments of every kind, name / string lengths, dialect strings and type-info words, message types, byte-order twins with long names): a is parsed and re-serialised, then b is judged twice", n, n), move |i, loc| {
            let (a, b) = (&set[(i / n) as usize], &set[(i % n) as usize]);
            let _ = catch(|| dlt_message(&a.0, None, a.1).map(|(_, pm)| if let ParsedMessage::Item(m) = pm { let _ = m.as_bytes(); }));
            judge(&b.0, b.1, loc);
            judge(&b.0, b.1, loc);
        }).distinct());
    }
}
