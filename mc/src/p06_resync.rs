//! C06 -- storage-header resync skips exactly the bytes before the first pattern.
use crate::common::*;
use crate::inputs::strings_over;
use crate::refmodel::*;
use crate::universe::*;
use dlt_core::parse::{dlt_message, forward_to_next_storage_header, ParsedMessage};
use serde_json::json;

static SEARCH_ALPHA: [u8; 6] = [b'D', b'L', b'T', 0x01, 0x00, b'X'];

fn naive_find(b: &[u8]) -> Option<usize> {
    let pat = [0x44u8, 0x4C, 0x54, 0x01];
    let mut i = 0;
    while i + 4 <= b.len() {
        if b[i] == pat[0] && b[i + 1] == pat[1] && b[i + 2] == pat[2] && b[i + 3] == pat[3] {
            return Some(i);
        }
        i += 1;
    }
    None
}

fn judge_search(input: &[u8], loc: &mut Local) {
    loc.evals += 1;
    loc.transitions += 1;
    loc.traces += 1;
    let expect = naive_find(input);
    loc.state(fnv64(input), expect.is_some());
    match catch(|| forward_to_next_storage_header(input).map(|(n, rest)| (n, rest.len(), rest.as_ptr() as usize))) {
        Err(p) => loc.violation("search panics", format!("forward_to_next_storage_header panicked ({}) on {}", p, hex_short(input)), json!({"input_hex": hex_short(input)})),
        Ok(got) => {
            let ok = match (got, expect) {
                (None, None) => true,
                (Some((n, rl, rp)), Some(k)) => n == k as u64 && rl == input.len() - k && rp == input.as_ptr() as usize + k,
                _ => false,
            };
            if ok {
                loc.outcome(if expect.is_some() { "found at first occurrence" } else { "absent" });
                loc.sample(|| json!({"input": hex_short(input), "first_occurrence": expect}));
            } else {
                loc.outcome("wrong");
                loc.violation("search result differs from first occurrence", format!("forward_to_next_storage_header({}) = {:?} (skipped, rest len), first occurrence of the pattern is {:?}", hex_short(input), got.map(|g| (g.0, g.1)), expect), json!({"input_hex": hex_short(input)}));
            }
        }
    }
}

/// junk ++ message ++ suffix must parse like message ++ suffix
fn judge_junk(junk: &[u8], msg: &[u8], suffix: &[u8], loc: &mut Local) {
    judge_junk_filtered(junk, msg, suffix, loc);
    loc.evals += 1;
    loc.transitions += 2;
    loc.traces += 1;
    let mut plain = msg.to_vec();
    plain.extend_from_slice(suffix);
    let mut dirty = junk.to_vec();
    dirty.extend_from_slice(&plain);
    loc.state(mix(fnv64(&dirty), junk.len() as u64), !junk.is_empty());
    let a = catch(|| dlt_message(&plain, None, true).map(|(rest, pm)| (rest.len(), pm)));
    let b = catch(|| dlt_message(&dirty, None, true).map(|(rest, pm)| (rest.len(), pm)));
    let details = || json!({"junk_hex": hex_short(junk), "message_hex": hex_short(msg), "suffix_hex": hex_short(suffix)});
    match (a, b) {
        (Ok(Ok((ra, ParsedMessage::Item(ma)))), Ok(Ok((rb, ParsedMessage::Item(mb))))) => {
            if ra != rb || ra != suffix.len() {
                loc.violation("junk changes the remainder", format!("remainder {} bytes with junk {} in front, {} without (suffix has {}); message {}", rb, hex_short(junk), ra, suffix.len(), hex_short(msg)), details());
            } else if !same_message(&ma, &mb) {
                loc.violation("junk changes the message", format!("junk {} in front changes the parsed message:\n    without: {}\n    with:    {}", hex_short(junk), fp(&ma), fp(&mb)), details());
            } else {
                loc.outcome("same message, same remainder");
                loc.sample(|| json!({"junk": hex_short(junk), "message": hex_short(msg), "suffix_len": suffix.len()}));
            }
        }
        (Ok(Ok((_, ParsedMessage::Item(_)))), other) => {
            loc.outcome("lost behind junk");
            loc.violation("message behind junk is not recovered", format!("message {} parses alone but with junk {} in front the result is {:?}", hex_short(msg), hex_short(junk), other.map(|r| r.map(|(n, pm)| (n, format!("{:?}", pm).chars().take(120).collect::<String>())))), details());
        }
        // the seed messages are well-formed by construction (reference encoder): one that is not
        // returned even without junk in front is a message the stream clause promises and the parser
        // does not recover
        (other, _) => {
            loc.outcome("well-formed stored message not recovered");
            loc.violation("well-formed stored message is not recovered", format!("stored message {} (followed by a {}-byte suffix) is not returned even without junk in front: {:?}", hex_short(msg), suffix.len(), other.map(|r| r.map(|(n, pm)| (n, format!("{:?}", pm).chars().take(120).collect::<String>())))), details());
        }
    }
}

/// The same comparison under a filter: whatever `message ++ suffix` gives with the filter (the
/// message or a filtered-out marker, and the remainder), `junk ++ message ++ suffix` must give too.
fn judge_junk_filtered(junk: &[u8], msg: &[u8], suffix: &[u8], loc: &mut Local) {
    if junk.is_empty() {
        return;
    }
    let mut plain = msg.to_vec();
    plain.extend_from_slice(suffix);
    let mut dirty = junk.to_vec();
    dirty.extend_from_slice(&plain);
    for (fname, f) in crate::p04_consume::filter_configs().iter().skip(1) {
        loc.transitions += 2;
        let a = catch(|| dlt_message(&plain, f.as_ref(), true).map(|(rest, pm)| (rest.len(), pm)));
        let b = catch(|| dlt_message(&dirty, f.as_ref(), true).map(|(rest, pm)| (rest.len(), pm)));
        let same = match (&a, &b) {
            (Ok(Ok((ra, ParsedMessage::Item(ma)))), Ok(Ok((rb, ParsedMessage::Item(mb))))) => ra == rb && same_message(ma, mb),
            (Ok(Ok((ra, pa))), Ok(Ok((rb, pb)))) => ra == rb && pa == pb,
            _ => false,
        };
        if !same {
            loc.outcome("junk changes the filtered result");
            let show = |r: &Result<Result<(usize, ParsedMessage), dlt_core::parse::DltParseError>, String>| match r {
                Ok(Ok((n, pm))) => format!("remainder {} bytes, {}", n, format!("{:?}", pm).chars().take(60).collect::<String>()),
                Ok(Err(e)) => format!("Err({:?})", e).chars().take(100).collect(),
                Err(p) => format!("PANIC {}", p),
            };
            loc.violation("junk changes the result under a filter", format!("with [{}]: message {} ++ {}-byte suffix alone gives ({}), with junk {} in front ({})", fname, hex_short(msg), suffix.len(), show(&a), hex_short(junk), show(&b)), json!({"junk_hex": hex_short(junk), "message_hex": hex_short(msg), "suffix_hex": hex_short(suffix), "filter": fname}));
            return;
        }
    }
    loc.outcome("same result under every filter");
}

fn judge_stream(parts: &[(&[u8], &[u8])], tail: &[u8], loc: &mut Local) {
    // parts: (junk, message) ...; then tail junk
    let mut buf = vec![];
    for (j, m) in parts {
        buf.extend_from_slice(j);
        buf.extend_from_slice(m);
    }
    buf.extend_from_slice(tail);
    loc.evals += 1;
    loc.traces += 1;
    loc.state(fnv64(&buf), true);
    let mut off = 0usize;
    let mut got: Vec<Vec<u8>> = vec![];
    for _ in 0..parts.len() + 2 {
        loc.transitions += 1;
        match catch(|| dlt_message(&buf[off..], None, true).map(|(rest, pm)| (rest.len(), pm))) {
            Ok(Ok((rest, ParsedMessage::Item(m)))) => {
                got.push(m.as_bytes());
                off = buf.len() - rest;
            }
            _ => break,
        }
    }
    let expect: Vec<Vec<u8>> = parts.iter().map(|(_, m)| m.to_vec()).collect();
    if got != expect {
        loc.outcome("stream not recovered");
        loc.violation("stream with junk not recovered completely and in order", format!("stream {} : recovered {} message(s) {:?}, expected {} in order", hex_short(&buf), got.len(), got.iter().map(|g| hex_short(g)).collect::<Vec<_>>(), expect.len()), json!({"stream_hex": hex_short(&buf)}));
    } else {
        loc.outcome("stream recovered in order");
    }
}

pub fn run(ctx: &Ctx) {
    ctx.enable_trace_pass(ctx.tier.pick(20000u64, 200000u64));
    ctx.set_rule("search: case = byte string, oracle = naive first-occurrence scan; parse: case = (junk not containing the pattern, message with storage header, suffix), oracle = parsing the message alone; streams junk/message interleavings recovered in order; non-trivial = the pattern occurs (search) / junk is non-empty (parse)");
    // search: all strings over the pattern alphabet
    let fam = strings_over(&SEARCH_ALPHA, ctx.tier.pick(8, 10), "search");
    let gen = &fam.gen;
    ctx.run_family(Family::new("c06.search.strings", fam.size, fam.about.clone(), move |i, loc| {
        let s = gen(i);
        judge_search(&s, loc);
    }));
    // search: long inputs
    {
        let mut longs: Vec<Vec<u8>> = vec![];
        for n in [65_536usize, 131_072, 70_001] {
            for fill in [0u8, b'D', b'L', 0x01] {
                let base = vec![fill; n];
                longs.push(base.clone());
                for at in [0usize, 1, 3, 4, 65_531, 65_532, 65_533, 65_535, 65_536, n - 4, n - 5, n - 3] {
                    if at + 4 <= n {
                        let mut b = base.clone();
                        b[at..at + 4].copy_from_slice(b"DLT\x01");
                        longs.push(b.clone());
                        // a second, later occurrence must not matter
                        if at + 12 <= n {
                            b[at + 8..at + 12].copy_from_slice(b"DLT\x01");
                            longs.push(b);
                        }
                    } else {
                        let mut b = base.clone();
                        b[n - 3..].copy_from_slice(b"DLT");
                        longs.push(b);
                    }
                }
            }
        }
        let n = longs.len() as u64;
        let longs = &longs;
        ctx.run_family(Family::new("c06.search.long", n, "64-128 KiB buffers of 00/'D'/'L'/01 with the pattern at 0,1,3,4,65531..65536,end-5..end-3, absent, truncated at the end, and with a second later occurrence", move |i, loc| judge_search(&longs[i as usize], loc)).chunk(1));
    }
    // search + parse: the pattern at EVERY offset 0..=N of a long buffer (block / chunk / window
    // boundaries of any search implementation lie somewhere in this range)
    {
        let nmax = ctx.tier.pick(70_100usize, 263_000usize);
        let msg = {
            let mut m = seed_messages(Tier::Quick)[0].clone();
            m.storage = Some(storage(0x0102_0304, 0x0005_0607, "ST"));
            encode(&m).0
        };
        let fills: [&[u8]; 3] = [&[0x00], b"DLT", &[0x01, b'D', b'L', b'T', b'D']];
        // one shared buffer per fill: junk = buffer[..k]
        let bufs: Vec<Vec<u8>> = fills.iter().map(|f| f.iter().cycle().take(nmax + 8).cloned().collect()).collect();
        let sp = Space::new(&[nmax + 1, fills.len()]);
        let s2 = sp.clone();
        let (bufs, msg) = (&bufs, &msg);
        ctx.run_family(Family::new("c06.offset_sweep", sp.size(), format!("junk of EVERY length 0..={} (fills: zeros, 'DLT' repeated, 01 'DLTD' repeated -- no complete pattern) followed by a storage-header message and a second pattern: the search must report exactly the junk length, and parsing must return the message with the same remainder as without junk", nmax), move |i, loc| {
            let c = s2.coords(i);
            let k = c[0];
            // junk must not complete a pattern together with the message start: fills never end in "DLT\x01"-completing context
            let mut input = bufs[c[1]][..k].to_vec();
            // 'DLT'-fill junk ending in "DLT" + message "DLT\x01..": first occurrence is still the message start
            input.extend_from_slice(msg);
            input.extend_from_slice(b"DLT\x01tail");
            judge_search(&input, loc);
            loc.transitions += 1;
            match catch(|| dlt_message(&input, None, true).map(|(rest, pm)| (rest.len(), pm))) {
                Ok(Ok((rest, ParsedMessage::Item(m)))) if rest == 8 && m.as_bytes() == *msg => loc.outcome("message behind junk recovered"),
                other => {
                    loc.outcome("lost behind junk");
                    loc.violation("message behind junk is not recovered", format!("{} junk bytes (fill {}) in front of a storage-header message: result {:?}", k, hex(fills[c[1]]), other.map(|r| r.map(|(n, pm)| (n, format!("{:?}", pm).chars().take(80).collect::<String>())))), json!({"junk_len": k, "fill_hex": hex(fills[c[1]]), "message_hex": hex_short(msg)}));
                }
            }
        }).chunk(16));
    }
    // junk x storage-header content: the 12 bytes behind the pattern (time, ECU id) are content too
    {
        let junks: Vec<Vec<u8>> = vec![b"X".to_vec(), vec![0u8; 5], b"DLT".to_vec(), vec![0xFF; 17]];
        // ECU ids: every byte value in the first position, and multi-byte / control / blank ids
        let mut ecus: Vec<Vec<u8>> = (0..=255u8).map(|b| vec![b, b'C', b'U', 0]).collect();
        for t in ["é1", "€", "😀", "MÜ1", "\u{1}\u{2}", "    ", "\t\n", "ÿ", "a\u{FEFF}"] {
            let mut v = t.as_bytes().to_vec();
            v.truncate(4);
            v.resize(4, 0);
            ecus.push(v);
        }
        let times: Vec<[u8; 8]> = vec![[0; 8], [0xFF; 8], *b"DLT\x01DLT\x01", [1, 2, 3, 4, 0x40, 0x42, 0x0F, 0]];
        let msg = encode(&seed_messages(Tier::Quick)[1]).0;
        let sp = Space::new(&[junks.len(), ecus.len(), times.len()]);
        let s2 = sp.clone();
        let (junks, ecus, times, msg) = (&junks, &ecus, &times, &msg);
        ctx.run_family(Family::new("c06.parse.junk_header_content", sp.size(), format!("4 junk strings x {} storage-header ECU ids (every byte value in the first position; multi-byte, control, blank, BOM ids) x 4 timestamps (zeros, FF, the pattern itself twice, ordinary) in front of a message: same message and remainder as without junk, also under the filter configurations", ecus.len()), move |i, loc| {
            let c = s2.coords(i);
            let mut m = b"DLT\x01".to_vec();
            m.extend_from_slice(&times[c[2]]);
            m.extend_from_slice(&ecus[c[1]]);
            m.extend_from_slice(msg);
            // a timestamp that contains the pattern makes the first occurrence ambiguous only inside
            // the header itself (offset 4), never before it: junk ++ m still starts its first pattern at |junk|
            judge_junk(&junks[c[0]], &m, b"tail", loc);
        }));
    }
    // repeated history: r identical calls with the pattern at offset g, then an input whose first
    // pattern is at k < g and which has another pattern exactly at g (offset hints, warmed caches)
    {
        let m = {
            let mut x = seed_messages(Tier::Quick)[0].clone();
            x.storage = Some(storage(1, 2, "ST"));
            encode(&x).0
        };
        let ml = m.len();
        let reps = [1usize, 2, 8, 9, 33];
        let gmax = ctx.tier.pick(96usize, 200usize);
        let sp = Space::new(&[gmax + 1, reps.len()]);
        let s2 = sp.clone();
        let m = &m;
        ctx.run_family(Family::new("c06.parse.repeated_history", sp.size(), format!("for every g in 0..={} and r in {:?}: r parses of junk(g) ++ message, then junk(k) ++ message A ++ junk ++ message B for EVERY k < g such that B's pattern sits exactly at offset g (and for k = g): the first message recovered must be A", gmax, reps), move |i, loc| {
            let c = s2.coords(i);
            let (g, r) = (c[0], reps[c[1]]);
            let mut warm = vec![b'x'; g];
            warm.extend_from_slice(m);
            for _ in 0..r {
                let _ = catch(|| dlt_message(&warm, None, true).map(|_| ()));
            }
            loc.evals += 1;
            loc.traces += 1;
            loc.state(i, true);
            for k in 0..=g {
                // A at k; B's pattern at g requires g >= k + ml (junk of g - k - ml bytes between), or k == g
                if k != g && k + ml > g {
                    continue;
                }
                let mut b = vec![b'y'; k];
                let mut a = m.clone();
                a[5] = 0xA5; // make A distinguishable from the warm-up message and from B
                b.extend_from_slice(&a);
                if k != g {
                    b.extend(std::iter::repeat(b'z').take(g - k - ml));
                    b.extend_from_slice(m);
                }
                loc.transitions += 1;
                match catch(|| dlt_message(&b, None, true).map(|(rest, pm)| (rest.len(), pm))) {
                    Ok(Ok((rest, ParsedMessage::Item(x)))) if x.as_bytes() == a && rest == b.len() - k - ml => loc.outcome("first message recovered"),
                    other => {
                        loc.outcome("history changes the result");
                        loc.violation("previous calls influence where the storage header is found", format!("after {} parses with the pattern at offset {}, an input with its first pattern at offset {} (and another at {}) gave {:?}", r, g, k, g, other.map(|r| r.map(|(n, pm)| (n, format!("{:?}", pm).chars().take(70).collect::<String>())))), json!({"g": g, "k": k, "r": r}));
                        return;
                    }
                }
            }
        }));
    }
    // parse: junk x messages x suffixes
    {
        let junk_fam = strings_over(&SEARCH_ALPHA, ctx.tier.pick(5, 6), "junk");
        let mut junks: Vec<Vec<u8>> = vec![];
        for i in 0..junk_fam.size {
            let j = (junk_fam.gen)(i);
            if naive_find(&j).is_none() {
                junks.push(j);
            }
        }
        for extra in [vec![0u8; 15], vec![0u8; 16], vec![b'D'; 17], b"DLT".repeat(11), vec![0xFF; 70_000]] {
            junks.push(extra);
        }
        // every junk length up to well beyond the shortest and the typical message lengths, plain
        // and ending in each proper prefix of the pattern
        for k in 6..=ctx.tier.pick(72usize, 320usize) {
            junks.push(vec![b'X'; k]);
            for tail in [&b"D"[..], b"DL", b"DLT"] {
                let mut j = vec![0u8; k];
                j.extend_from_slice(tail);
                junks.push(j);
            }
        }
        // structured junk: what really precedes a storage header in a damaged file - complete
        // messages WITHOUT storage header (self-consistent frames), two of them, stored messages
        // whose magic is damaged or whose first byte is lost, text lines
        let plain_junk_from = junks.len();
        for (k, mut m) in seed_messages(ctx.tier).into_iter().enumerate().step_by(ctx.tier.pick(5, 2)) {
            m.storage = None;
            let plain = encode(&m).0;
            if naive_find(&plain).is_some() {
                continue;
            }
            let mut stored = m.clone();
            stored.storage = Some(storage(0x0A0B_0C0D, 0x0000_0102, "JNK"));
            let stored = encode(&stored).0;
            junks.push(plain.clone());
            if k % 2 == 0 {
                let mut two = plain.clone();
                two.extend_from_slice(&plain);
                junks.push(two);
                let mut damaged = stored.clone();
                damaged[3] = 0x02;
                junks.push(damaged);
                junks.push(stored[1..].to_vec());
            }
        }
        junks.push(b"-- log rotated --\r\n".to_vec());
        // the serial-header pattern and other four-byte look-alikes of the storage pattern
        for j in [&b"DLS\x01"[..], b"xDLS\x01yy", b"DLS\x01DLS\x01", b"DLS\x01\x20\x00\x00\x08\x01\x02\x03\x04", b"DLT\x02", b"DLU\x01", b"dlt\x01", b"DLT\x00DLT"] {
            junks.push(j.to_vec());
        }
        junks.push(vec![0x20, 0x00, 0x00, 0x08, 1, 2, 3, 4]);
        junks.push(vec![0x20, 0x00, 0x00, 0x04]);
        let structured = junks.len() - plain_junk_from;
        ctx.put("structured_junk_strings", json!(structured));
        let msgs: Vec<Vec<u8>> = seed_messages(ctx.tier)
            .into_iter()
            .step_by(ctx.tier.pick(2, 1))
            .map(|mut m| {
                m.storage = Some(storage(0x0102_0304, 0x0005_0607, "ST"));
                encode(&m).0
            })
            .collect();
        // messages that carry the storage pattern as content (family u.embedded_pattern)
        let mut msgs = msgs;
        for pos in 0..embedded_pattern_positions() {
            for big in [false, true] {
                if pos % 2 == 0 || big == (ctx.tier == Tier::Thorough) || ctx.tier == Tier::Thorough {
                    msgs.push(encode(&embedded_pattern_message(pos, big, Some(storage(0x0102_0304, 0x0005_0607, "ST")), b"DLT\x01", "DLT\u{1}")).0);
                }
            }
        }
        let suffixes: Vec<Vec<u8>> = vec![vec![], b"D".to_vec(), b"DLT\x01".to_vec(), msgs[0].clone()];
        let sp = Space::new(&[junks.len(), msgs.len(), suffixes.len()]);
        let s2 = sp.clone();
        let (junks, msgs, suffixes) = (&junks, &msgs, &suffixes);
        ctx.run_family(Family::new("c06.parse.junk_message", sp.size(), format!("{} junk strings (all strings of length <= {} over {{D,L,T,01,00,X}} without the pattern, incl. every partial-pattern tail; 15/16/17-byte and 70000-byte junk; every length 6..={} plain and ending in D / DL / DLT; structured junk: complete messages without storage header, two of them, stored messages with a damaged magic or a lost first byte, a text line, minimal frames) x {} storage-header messages (incl. messages carrying the pattern as content) x 4 suffixes, each also under 4 filter configurations", junks.len(), ctx.tier.pick(5, 6), ctx.tier.pick(72, 320), msgs.len()), move |i, loc| {
            let c = s2.coords(i);
            judge_junk(&junks[c[0]], &msgs[c[1]], &suffixes[c[2]], loc);
        }));
        // long tails: junk ++ message ++ a tail whose length puts the whole buffer just below / at / above
        // a multiple of 64 KiB (length arithmetic in 16 bits)
        {
            let lj: Vec<Vec<u8>> = vec![b"X".to_vec(), vec![0u8; 7], b"DLT".to_vec(), vec![0x58; 17]];
            let lm: Vec<&Vec<u8>> = msgs.iter().step_by((msgs.len() / 6).max(1)).take(6).collect();
            let tails: Vec<usize> = (65_480..=65_560).chain(131_040..=131_080).collect();
            let sp = Space::new(&[lj.len(), lm.len(), tails.len()]);
            let s2 = sp.clone();
            let (lj, lm, tails) = (&lj, &lm, &tails);
            ctx.run_family(Family::new("c06.parse.long_tails", sp.size(), format!("4 junk strings x 6 messages x a zero tail of EVERY length in 65480..=65560 and 131040..=131080 behind the message: same message and remainder as without junk"), move |i, loc| {
                let c = s2.coords(i);
                let tail = vec![0u8; tails[c[2]]];
                judge_junk(&lj[c[0]], lm[c[1]], &tail, loc);
            }));
        }
        // streams j0 m1 j1 m2 j2 m3 j3
        let sm: Vec<&Vec<u8>> = msgs.iter().step_by((msgs.len() / ctx.tier.pick(6, 12)).max(1)).take(ctx.tier.pick(6, 12)).collect();
        let sj: Vec<Vec<u8>> = vec![vec![], b"D".to_vec(), b"DLT".to_vec(), b"XDL".to_vec(), b"DLTD\0".to_vec(), vec![0; 17]];
        let mut sj: Vec<Vec<u8>> = sj.into_iter().take(ctx.tier.pick(4, 6)).collect();
        // a self-consistent frame without storage header as junk between stored messages
        sj.push(vec![0x20, 0x00, 0x00, 0x08, 1, 2, 3, 4]);
        let (nm, nj) = (sm.len(), sj.len());
        let sp = Space::new(&[nm, nm, nm, nj, nj, nj, nj]);
        let s2 = sp.clone();
        let (sm, sj) = (&sm, &sj);
        ctx.run_family(Family::new("c06.parse.streams", sp.size(), format!("streams j0 m1 j1 m2 j2 m3 j3: all triples over {} messages x all 4-tuples over {} junk strings", nm, nj), move |i, loc| {
            let c = s2.coords(i);
            judge_stream(&[(&sj[c[3]], sm[c[0]]), (&sj[c[4]], sm[c[1]]), (&sj[c[5]], sm[c[2]])], &sj[c[6]], loc);
        }));
    }
}
