//! C06 -- storage-header resync skips exactly the bytes before the first pattern.
use crate::common::*;
use crate::inputs::strings_over;
use crate::refmodel::*;
use crate::universe::*;
use dlt_core::parse::{dlt_message, forward_to_next_storage_header, ParsedMessage};
use serde_json::json;

static SEARCH_ALPHA: [u8; 6] = [b'D', b'L', b'T', 0x01, 0x00, b'X'];

fn naive_find(b: &[u8]) -> Option<usize> {
    let pat = [0x44u8, 0x4C, 0x54, 0x01];
    let mut i = 0;
    while i + 4 <= b.len() {
        if b[i] == pat[0] && b[i + 1] == pat[1] && b[i + 2] == pat[2] && b[i + 3] == pat[3] {
            return Some(i);
        }
        i += 1;
    }
    None
}

fn judge_search(input: &[u8], loc: &mut Local) {
    loc.evals += 1;
    loc.transitions += 1;
    loc.traces += 1;
    let expect = naive_find(input);
    loc.state(fnv64(input), expect.is_some());
    match catch(|| forward_to_next_storage_header(input).map(|(n, rest)| (n, rest.len(), rest.as_ptr() as usize))) {
        Err(p) => loc.violation("search panics", format!("forward_to_next_storage_header panicked ({}) on {}", p, hex_short(input)), json!({"input_hex": hex_short(input)})),
        Ok(got) => {
            let ok = match (got, expect) {
                (None, None) => true,
                (Some((n, rl, rp)), Some(k)) => n == k as u64 && rl == input.len() - k && rp == input.as_ptr() as usize + k,
                _ => false,
            };
            if ok {
                loc.outcome(if expect.is_some() { "found at first occurrence" } else { "absent" });
                loc.sample(|| json!({"input": hex_short(input), "first_occurrence": expect}));
            } else {
                loc.outcome("wrong");
                loc.violation("search result differs from first occurrence", format!("forward_to_next_storage_header({}) = {:?} (skipped, rest len), first occurrence of the pattern is {:?}", hex_short(input), got.map(|g| (g.0, g.1)), expect), json!({"input_hex": hex_short(input)}));
            }
        }
    }
}

/// junk ++ message ++ suffix must parse like message ++ suffix
fn judge_junk(junk: &[u8], msg: &[u8], suffix: &[u8], loc: &mut Local) {
    judge_junk_filtered(junk, msg, suffix, loc);
    loc.evals += 1;
    loc.transitions += 2;
    loc.traces += 1;
    let mut plain = msg.to_vec();
    plain.extend_from_slice(suffix);
    let mut dirty = junk.to_vec();
    dirty.extend_from_slice(&plain);
    loc.state(mix(fnv64(&dirty), junk.len() as u64), !junk.is_empty());
    let a = catch(|| dlt_message(&plain, None, true).map(|(rest, pm)| (rest.len(), pm)));
    let b = catch(|| dlt_message(&dirty, None, true).map(|(rest, pm)| (rest.len(), pm)));
    let details = || json!({"junk_hex": hex_short(junk), "message_hex": hex_short(msg), "suffix_hex": hex_short(suffix)});
    match (a, b) {
        (Ok(Ok((ra, ParsedMessage::Item(ma)))), Ok(Ok((rb, ParsedMessage::Item(mb))))) => {
            if ra != rb || ra != suffix.len() {
                loc.violation("junk changes the remainder", format!("remainder {} bytes with junk {} in front, {} without (suffix has {}); message {}", rb, hex_short(junk), ra, suffix.len(), hex_short(msg)), details());
            } else if !same_message(&ma, &mb) {
                loc.violation("junk changes the message", format!("junk {} in front changes the parsed message:\n    without: {}\n    with:    {}", hex_short(junk), fp(&ma), fp(&mb)), details());
            } else {
                loc.outcome("same message, same remainder");
                loc.sample(|| json!({"junk": hex_short(junk), "message": hex_short(msg), "suffix_len": suffix.len()}));
            }
        }
        (Ok(Ok((_, ParsedMessage::Item(_)))), other) => {
            loc.outcome("lost behind junk");
            loc.violation("message behind junk is not recovered", format!("message {} parses alone but with junk {} in front the result is {:?}", hex_short(msg), hex_short(junk), other.map(|r| r.map(|(n, pm)| (n, format!("{:?}", pm).chars().take(120).collect::<String>())))), details());
        }
        (other, _) => panic!("C06 harness: seed message does not parse alone: {:?}", other.map(|r| r.map(|x| x.0))),
    }
}

/// The same comparison under a filter: whatever `message ++ suffix` gives with the filter (the
/// message or a filtered-out marker, and the remainder), `junk ++ message ++ suffix` must give too.
fn judge_junk_filtered(junk: &[u8], msg: &[u8], suffix: &[u8], loc: &mut Local) {
    if junk.is_empty() {
        return;
    }
    let mut plain = msg.to_vec();
    plain.extend_from_slice(suffix);
    let mut dirty = junk.to_vec();
    dirty.extend_from_slice(&plain);
    for (fname, f) in crate::p04_consume::filter_configs().iter().skip(1) {
        loc.transitions += 2;
        let a = catch(|| dlt_message(&plain, f.as_ref(), true).map(|(rest, pm)| (rest.len(), pm)));
        let b = catch(|| dlt_message(&dirty, f.as_ref(), true).map(|(rest, pm)| (rest.len(), pm)));
        let same = match (&a, &b) {
            (Ok(Ok((ra, ParsedMessage::Item(ma)))), Ok(Ok((rb, ParsedMessage::Item(mb))))) => ra == rb && same_message(ma, mb),
            (Ok(Ok((ra, pa))), Ok(Ok((rb, pb)))) => ra == rb && pa == pb,
            _ => false,
        };
        if !same {
            loc.outcome("junk changes the filtered result");
            let show = |r: &Result<Result<(usize, ParsedMessage), dlt_core::parse::DltParseError>, String>| match r {
                Ok(Ok((n, pm))) => format!("remainder {} bytes, {}", n, format!("{:?}", pm).chars().take(60).collect::<String>()),
                Ok(Err(e)) => format!("Err({:?})", e).chars().take(100).collect(),
                Err(p) => format!("PANIC {}", p),
            };
            loc.violation("junk changes the result under a filter", format!("with [{}]: message {} ++ {}-byte suffix alone gives ({}), with junk {} in front ({})", fname, hex_short(msg), suffix.len(), show(&a), hex_short(junk), show(&b)), json!({"junk_hex": hex_short(junk), "message_hex": hex_short(msg), "suffix_hex": hex_short(suffix), "filter": fname}));
            return;
        }
    }
    loc.outcome("same result under every filter");
}

fn judge_stream(parts: &[(&[u8], &[u8])], tail: &[u8], loc: &mut Local) {
    // parts: (junk, message) ...; then tail junk
    let mut buf = vec![];
    for (j, m) in parts {
        buf.extend_from_slice(j);
        buf.extend_from_slice(m);
    }
    buf.extend_from_slice(tail);
    loc.evals += 1;
    loc.traces += 1;
    loc.state(fnv64(&buf), true);
    let mut off = 0usize;
    let mut got: Vec<Vec<u8>> = vec![];
    for _ in 0..parts.len() + 2 {
        loc.transitions += 1;
        match catch(|| dlt_message(&buf[off..], None, true).map(|(rest, pm)| (rest.len(), pm))) {
            Ok(Ok((rest, ParsedMessage::Item(m)))) => {
                got.push(m.as_bytes());
                off = buf.len() - rest;
            }
            _ => break,
        }
    }
    let expect: Vec<Vec<u8>> = parts.iter().map(|(_, m)| m.to_vec()).collect();
    if got != expect {
        loc.outcome("stream not recovered");
        loc.violation("stream with junk not recovered completely and in order", format!("stream {} : recovered {} message(s) {:?}, expected {} in order", hex_short(&buf), got.len(), got.iter().map(|g| hex_short(g)).collect::<Vec<_>>(), expect.len()), json!({"stream_hex": hex_short(&buf)}));
    } else {
        loc.outcome("stream recovered in order");
    }
}

pub fn run(ctx: &Ctx) {
    ctx.set_rule("search: case = byte string, oracle = naive first-occurrence scan; parse: case = (junk not containing the pattern, message with storage header, suffix), oracle = parsing the message alone; streams junk/message interleavings recovered in order; non-trivial = the pattern occurs (search) / junk is non-empty (parse)");
    // search: all strings over the pattern alphabet
    let fam = strings_over(&SEARCH_ALPHA, ctx.tier.pick(8, 10), "search");
    let gen = &fam.gen;
    ctx.run_family(Family::new("c06.search.strings", fam.size, fam.about.clone(), move |i, loc| {
        let s = gen(i);
        judge_search(&s, loc);
    }));
    // search: long inputs
    {
        let mut longs: Vec<Vec<u8>> = vec![];
        for n in [65_536usize, 131_072, 70_001] {
            for fill in [0u8, b'D', b'L', 0x01] {
                let base = vec![fill; n];
                longs.push(base.clone());
                for at in [0usize, 1, 3, 4, 65_531, 65_532, 65_533, 65_535, 65_536, n - 4, n - 5, n - 3] {
                    if at + 4 <= n {
                        let mut b = base.clone();
                        b[at..at + 4].copy_from_slice(b"DLT\x01");
                        longs.push(b.clone());
                        // a second, later occurrence must not matter
                        if at + 12 <= n {
                            b[at + 8..at + 12].copy_from_slice(b"DLT\x01");
                            longs.push(b);
                        }
                    } else {
                        let mut b = base.clone();
                        b[n - 3..].copy_from_slice(b"DLT");
                        longs.push(b);
                    }
                }
            }
        }
        let n = longs.len() as u64;
        let longs = &longs;
        ctx.run_family(Family::new("c06.search.long", n, "64-128 KiB buffers of 00/'D'/'L'/01 with the pattern at 0,1,3,4,65531..65536,end-5..end-3, absent, truncated at the end, and with a second later occurrence", move |i, loc| judge_search(&longs[i as usize], loc)).chunk(1));
    }
    // search + parse: the pattern at EVERY offset 0..=N of a long buffer (block / chunk / window
    // boundaries of any search implementation lie somewhere in this range)
    {
        let nmax = ctx.tier.pick(70_100usize, 263_000usize);
        let msg = {
            let mut m = seed_messages(Tier::Quick)[0].clone();
            m.storage = Some(storage(0x0102_0304, 0x0005_0607, "ST"));
            encode(&m).0
        };
        let fills: [&[u8]; 3] = [&[0x00], b"DLT", &[0x01, b'D', b'L', b'T', b'D']];
        // one shared buffer per fill: junk = buffer[..k]
        let bufs: Vec<Vec<u8>> = fills.iter().map(|f| f.iter().cycle().take(nmax + 8).cloned().collect()).collect();
        let sp = Space::new(&[nmax + 1, fills.len()]);
        let s2 = sp.clone();
        let (bufs, msg) = (&bufs, &msg);
        ctx.run_family(Family::new("c06.offset_sweep", sp.size(), format!("junk of EVERY length 0..={} (fills: zeros, 'DLT' repeated, 01 'DLTD' repeated -- no complete pattern) followed by a storage-header message and a second pattern: the search must report exactly the junk length, and parsing must return the message with the same remainder as without junk", nmax), move |i, loc| {
            let c = s2.coords(i);
            let k = c[0];
            // junk must not complete a pattern together with the message start: fills never end in "DLT\x01"-completing context
            let mut input = bufs[c[1]][..k].to_vec();
            // 'DLT'-fill junk ending in "DLT" + message "DLT\x01..": first occurrence is still the message start
            input.extend_from_slice(msg);
            input.extend_from_slice(b"DLT\x01tail");
            judge_search(&input, loc);
            loc.transitions += 1;
            match catch(|| dlt_message(&input, None, true).map(|(rest, pm)| (rest.len(), pm))) {
                Ok(Ok((rest, ParsedMessage::Item(m)))) if rest == 8 && m.as_bytes() == *msg => loc.outcome("message behind junk recovered"),
                other => {
                    loc.outcome("lost behind junk");
                    loc.violation("message behind junk is not recovered", format!("{} junk bytes (fill {}) in front of a storage-header message: result {:?}", k, hex(fills[c[1]]), other.map(|r| r.map(|(n, pm)| (n, format!("{:?}", pm).chars().take(80).collect::<String>())))), json!({"junk_len": k, "fill_hex": hex(fills[c[1]]), "message_hex": hex_short(msg)}));
                }
            }
        }).chunk(16));
    }
    // parse: junk x messages x suffixes
    {
        let junk_fam = strings_over(&SEARCH_ALPHA, ctx.tier.pick(5, 6), "junk");
        let mut junks: Vec<Vec<u8>> = vec![];
        for i in 0..junk_fam.size {
            let j = (junk_fam.gen)(i);
            if naive_find(&j).is_none() {
                junks.push(j);
            }
        }
        for extra in [vec![0u8; 15], vec![0u8; 16], vec![b'D'; 17], b"DLT".repeat(11), vec![0xFF; 70_000]] {
            junks.push(extra);
        }
        // every junk length up to well beyond the shortest and the typical message lengths, plain
        // and ending in each proper prefix of the pattern
        for k in 6..=ctx.tier.pick(72usize, 320usize) {
            junks.push(vec![b'X'; k]);
            for tail in [&b"D"[..], b"DL", b"DLT"] {
                let mut j = vec![0u8; k];
                j.extend_from_slice(tail);
                junks.push(j);
            }
        }
        let msgs: Vec<Vec<u8>> = seed_messages(ctx.tier)
            .into_iter()
            .step_by(ctx.tier.pick(2, 1))
            .map(|mut m| {
                m.storage = Some(storage(0x0102_0304, 0x0005_0607, "ST"));
                encode(&m).0
            })
            .collect();
        // messages that carry the storage pattern as content (family u.embedded_pattern)
        let mut msgs = msgs;
        for pos in 0..embedded_pattern_positions() {
            for big in [false, true] {
                if pos % 2 == 0 || big == (ctx.tier == Tier::Thorough) || ctx.tier == Tier::Thorough {
                    msgs.push(encode(&embedded_pattern_message(pos, big, Some(storage(0x0102_0304, 0x0005_0607, "ST")), b"DLT\x01", "DLT\u{1}")).0);
                }
            }
        }
        let suffixes: Vec<Vec<u8>> = vec![vec![], b"D".to_vec(), b"DLT\x01".to_vec(), msgs[0].clone()];
        let sp = Space::new(&[junks.len(), msgs.len(), suffixes.len()]);
        let s2 = sp.clone();
        let (junks, msgs, suffixes) = (&junks, &msgs, &suffixes);
        ctx.run_family(Family::new("c06.parse.junk_message", sp.size(), format!("{} junk strings (all strings of length <= {} over {{D,L,T,01,00,X}} without the pattern, incl. every partial-pattern tail; 15/16/17-byte and 70000-byte junk; every length 6..={} plain and ending in D / DL / DLT) x {} storage-header messages (incl. messages carrying the pattern as content) x 4 suffixes, each also under 4 filter configurations", junks.len(), ctx.tier.pick(5, 6), ctx.tier.pick(72, 320), msgs.len()), move |i, loc| {
            let c = s2.coords(i);
            judge_junk(&junks[c[0]], &msgs[c[1]], &suffixes[c[2]], loc);
        }));
        // streams j0 m1 j1 m2 j2 m3 j3
        let sm: Vec<&Vec<u8>> = msgs.iter().step_by((msgs.len() / ctx.tier.pick(6, 12)).max(1)).take(ctx.tier.pick(6, 12)).collect();
        let sj: Vec<Vec<u8>> = vec![vec![], b"D".to_vec(), b"DLT".to_vec(), b"XDL".to_vec(), b"DLTD\0".to_vec(), vec![0; 17]];
        let sj: Vec<Vec<u8>> = sj.into_iter().take(ctx.tier.pick(4, 6)).collect();
        let (nm, nj) = (sm.len(), sj.len());
        let sp = Space::new(&[nm, nm, nm, nj, nj, nj, nj]);
        let s2 = sp.clone();
        let (sm, sj) = (&sm, &sj);
        ctx.run_family(Family::new("c06.parse.streams", sp.size(), format!("streams j0 m1 j1 m2 j2 m3 j3: all triples over {} messages x all 4-tuples over {} junk strings", nm, nj), move |i, loc| {
            let c = s2.coords(i);
            judge_stream(&[(&sj[c[3]], sm[c[0]]), (&sj[c[4]], sm[c[1]]), (&sj[c[5]], sm[c[2]])], &sj[c[6]], loc);
        }));
    }
}
