//! C13 -- non-verbose argument construction decodes packed fields in order or refuses.
//! Space: all signal-type lists up to length 2 (quick) / 3 (thorough) over the 15 supported kinds
//! x a value alphabet per position x both byte orders x {exact payload, EVERY truncation,
//! 1 and 3 trailing bytes}; fixed-point kinds for the no-panic clause only.
use crate::common::*;
use crate::refmodel::*;
use crate::universe::*;
use dlt_core::dlt::*;
use dlt_core::parse::construct_arguments;
use serde_json::json;

#[derive(Clone, Debug)]
enum Field {
    Val(RefKind, RefValue),
    /// string field with raw (possibly invalid UTF-8) content
    BadStr(Vec<u8>),
}

fn supported_kinds() -> Vec<RefKind> {
    all_kinds().into_iter().filter(|k| !is_fixp(*k)).collect()
}

fn field_alphabet(tier: Tier) -> Vec<Field> {
    let mut v = vec![];
    for k in supported_kinds() {
        match k {
            RefKind::Str => {
                for s in ["", "a", "hé€", "a\0b", "\0"] {
                    v.push(Field::Val(k, RefValue::Str(s.to_string())));
                }
                if tier == Tier::Thorough {
                    v.push(Field::Val(k, RefValue::Str("x".repeat(300))));
                }
                v.push(Field::BadStr(vec![0xFF]));
                v.push(Field::BadStr(vec![b'a', 0xC3]));
                v.push(Field::BadStr(vec![0xE2, 0x82, b'a']));
                // a NUL in front of the first invalid byte: the field as a whole is still not UTF-8
                v.push(Field::BadStr(vec![b'o', b'k', 0, 0xFF, 0xFE]));
                v.push(Field::BadStr(vec![0, 0x80]));
            }
            RefKind::Raw => {
                for r in [vec![], vec![0u8], vec![1, 2, 3], vec![0xFF, 0xC3]] {
                    v.push(Field::Val(k, RefValue::Raw(r)));
                }
                if tier == Tier::Thorough {
                    v.push(Field::Val(k, RefValue::Raw((0..300u32).map(|i| i as u8).collect())));
                }
            }
            RefKind::Bool => {
                for b in [0u8, 1, 0xFF] {
                    v.push(Field::Val(k, RefValue::Bool(b)));
                }
            }
            _ => {
                let vals = values_of(k, tier);
                let take = if tier == Tier::Thorough { vals.len() } else { 4.min(vals.len()) };
                // always include the byte-asymmetric pattern (index 3 for uints, 5 for sints)
                let mut chosen: Vec<RefValue> = vals.iter().take(take).cloned().collect();
                chosen.push(default_value(k));
                for x in chosen {
                    v.push(Field::Val(k, x));
                }
            }
        }
    }
    v
}

fn encode_field(f: &Field, big: bool, out: &mut Vec<u8>) {
    let put = |out: &mut Vec<u8>, v: u128, n: usize| {
        let le = v.to_le_bytes();
        if big {
            for i in (0..n).rev() {
                out.push(le[i]);
            }
        } else {
            out.extend_from_slice(&le[..n]);
        }
    };
    match f {
        Field::BadStr(b) => {
            put(out, b.len() as u128, 2);
            out.extend_from_slice(b);
        }
        Field::Val(_, v) => match v {
            RefValue::Bool(b) => out.push(*b),
            RefValue::U(x, n) => put(out, *x, *n as usize),
            RefValue::I(x, n) => put(out, *x as u128, *n as usize),
            RefValue::F32(b) => put(out, *b as u128, 4),
            RefValue::F64(b) => put(out, *b as u128, 8),
            RefValue::Str(s) => {
                put(out, s.len() as u128, 2);
                out.extend_from_slice(s.as_bytes());
            }
            RefValue::Raw(r) => {
                put(out, r.len() as u128, 2);
                out.extend_from_slice(r);
            }
        },
    }
}
fn kind_of(f: &Field) -> RefKind {
    match f {
        Field::BadStr(_) => RefKind::Str,
        Field::Val(k, _) => *k,
    }
}
fn type_info_for(k: RefKind, i: usize) -> TypeInfo {
    TypeInfo { kind: kind_to_crate(k), coding: if i % 2 == 0 { StringCoding::ASCII } else { StringCoding::UTF8 }, has_variable_info: false, has_trace_info: false }
}
/// The flags of a given type are part of "its type": positions and list lengths mix them (a
/// non-verbose payload carries no names whatever the flag says).
fn type_info_flagged(k: RefKind, i: usize, len: usize) -> TypeInfo {
    TypeInfo { has_variable_info: (i + len) % 2 == 1, has_trace_info: ((i + len) / 2) % 2 == 1, ..type_info_for(k, i) }
}
fn same_value_bits(a: &Value, b: &Value) -> bool {
    match (a, b) {
        (Value::F32(x), Value::F32(y)) => x.to_bits() == y.to_bits(),
        (Value::F64(x), Value::F64(y)) => x.to_bits() == y.to_bits(),
        (Value::F32(_), _) | (Value::F64(_), _) => false,
        _ => a == b,
    }
}

fn judge(fields: &[Field], big: bool, loc: &mut Local) {
    judge_cuts(fields, big, false, loc)
}

/// `sparse`: for long payloads only the cuts around every field boundary (+-1), the first and the
/// last 24 positions are tried instead of every truncation.
fn judge_cuts(fields: &[Field], big: bool, sparse: bool, loc: &mut Local) {
    let mut exact = vec![];
    let mut boundaries: Vec<usize> = vec![];
    for f in fields {
        encode_field(f, big, &mut exact);
        boundaries.push(exact.len());
    }
    let types: Vec<TypeInfo> = fields.iter().enumerate().map(|(i, f)| type_info_flagged(kind_of(f), i, fields.len())).collect();
    let e = if big { Endianness::Big } else { Endianness::Little };
    let has_bad = fields.iter().any(|f| matches!(f, Field::BadStr(_)));
    let describe = || format!("types {:?}, {:?}", fields.iter().map(kind_of).collect::<Vec<_>>(), e);
    loc.state(mix(fnv64(&exact), mix(big as u64, fnv64(format!("{:?}", fields.iter().map(kind_of).collect::<Vec<_>>()).as_bytes()))), !has_bad);
    loc.traces += 1;
    // variants: every truncation 0..len-1, exact, +1 byte, +3 bytes
    let n = exact.len();
    let mut wanted: Vec<usize> = vec![];
    if sparse && n > 64 {
        let mut w: Vec<usize> = (0..24.min(n)).chain(n.saturating_sub(24)..n).collect();
        // at most ~200 boundaries, evenly spread, plus the first and last 8
        let nb = boundaries.len();
        let step = (nb / 200).max(1);
        for (bi, b) in boundaries.iter().enumerate() {
            if bi % step == 0 || bi < 8 || bi + 8 >= nb {
                for d in [-3i64, -2, -1, 0, 1, 2] {
                    let c = *b as i64 + d;
                    if c >= 0 && (c as usize) < n {
                        w.push(c as usize);
                    }
                }
            }
        }
        w.sort_unstable();
        w.dedup();
        wanted = w;
        wanted.extend([n, n + 1, n + 2]);
    }
    let all: Vec<usize> = if wanted.is_empty() { (0..n + 3).collect() } else { wanted };
    for v in all {
        let data: Vec<u8> = if v < n {
            exact[..v].to_vec()
        } else {
            let mut d = exact.clone();
            d.extend_from_slice(&[0xAB, 0x00, 0xFF][..[0usize, 1, 3][v - n]]);
            d
        };
        loc.evals += 1;
        loc.transitions += 1;
        let details = || json!({"types": describe(), "data_hex": hex_short(&data), "exact_len": n});
        match catch(|| construct_arguments(e, &types, &data)) {
            Err(p) => {
                let site = p.rsplit('@').next().unwrap_or("").trim().to_string();
                loc.violation(format!("construct_arguments panics @ {}", site), format!("construct_arguments panicked ({}) for {}, data {} ({} of {} bytes)", p, describe(), hex_short(&data), data.len(), n), details());
            }
            Ok(Err(_)) => {
                if v >= n && !has_bad {
                    loc.outcome("refused a sufficient payload");
                    loc.violation("sufficient payload refused", format!("construct_arguments returned an error although the payload holds all fields ({} bytes, {} needed): {}, data {}", data.len(), n, describe(), hex_short(&data)), details());
                } else {
                    loc.outcome(if has_bad && v >= n { "refused invalid UTF-8" } else { "refused short payload" });
                }
            }
            Ok(Ok(args)) => {
                if v < n {
                    // a strict prefix that still contains complete leading fields is short for the LIST
                    loc.outcome("accepted a short payload");
                    loc.violation("payload too short for the listed types is accepted", format!("construct_arguments accepted {} of the {} bytes needed: {}, data {} -> {:?}", data.len(), n, describe(), hex_short(&data), args.iter().map(|a| &a.value).collect::<Vec<_>>()), details());
                    continue;
                }
                if has_bad {
                    loc.outcome("accepted invalid UTF-8");
                    loc.violation("invalid UTF-8 string accepted", format!("construct_arguments accepted a string field that is not valid UTF-8: {}, data {}", describe(), hex_short(&data)), details());
                    continue;
                }
                let mut ok = args.len() == fields.len();
                if ok {
                    for (i, (a, f)) in args.iter().zip(fields.iter()).enumerate() {
                        let expect = match f {
                            Field::Val(_, v) => value_to_crate(v),
                            _ => unreachable!(),
                        };
                        if a.type_info != types[i] || !same_value_bits(&a.value, &expect) || a.name.is_some() || a.unit.is_some() || a.fixed_point.is_some() {
                            ok = false;
                            loc.outcome("wrong argument");
                            loc.violation("constructed argument differs from the packed field", format!("argument {} of {}: got type {:?} value {:?} name {:?} unit {:?} fixed_point {:?}, expected type {:?} value {:?}; data {}", i, describe(), a.type_info.kind, a.value, a.name, a.unit, a.fixed_point, types[i].kind, expect, hex_short(&data)), details());
                            break;
                        }
                    }
                } else {
                    loc.outcome("wrong count");
                    loc.violation("wrong number of constructed arguments", format!("{} arguments for {} types: {}, data {}", args.len(), fields.len(), describe(), hex_short(&data)), details());
                }
                if ok {
                    loc.outcome("arguments as packed");
                    loc.sample(|| json!({"types": describe(), "data": hex_short(&data), "values": args.iter().map(|a| format!("{:?}", a.value)).collect::<Vec<_>>()}));
                }
            }
        }
    }
}

pub fn run(ctx: &Ctx) {
    ctx.enable_trace_pass(ctx.tier.pick(20000u64, 200000u64));
    ctx.set_rule("case = (signal-type list with one value per position, byte order); for each case the exact payload, every truncation and 1/3 trailing bytes are constructed; a state is a distinct (type list, payload, order); evaluations count (case, payload variant) pairs; non-trivial = all strings are valid UTF-8 (arguments are expected)");
    ctx.assume("fixed-point signal types are only checked for no-panic (c13.fixed_point family and C03): the statement lists bool, integers, floats, strings and raw data");
    let alpha = field_alphabet(ctx.tier);
    let n = alpha.len() as u64;
    let depth = ctx.tier.pick(2u32, 3u32);
    // thorough depth 3 uses a reduced alphabet (one or two fields per kind) for the third position
    let mut total = 0u64;
    let mut bounds = vec![];
    for d in 0..=depth.min(2) {
        total += n.pow(d);
        bounds.push(total);
    }
    let alpha = &alpha;
    ctx.put("field_alphabet_size", json!(n));
    ctx.run_family(Family::new("c13.lists", total * 2, format!("all field lists of length 0..=2 over a {}-symbol field alphabet (15 kinds x values incl. empty/NUL-containing/invalid-UTF-8 strings and empty raw data) x both byte orders x every truncation + trailing bytes", n), move |i, loc| {
        let big = i % 2 == 1;
        let mut j = i / 2;
        let mut d = 0;
        while j >= bounds[d] {
            d += 1;
        }
        if d > 0 {
            j -= bounds[d - 1];
        }
        let mut fields = vec![];
        for _ in 0..d {
            fields.push(alpha[(j % n) as usize].clone());
            j /= n;
        }
        judge(&fields, big, loc);
    }));
    // history: one construction must not depend on the ones before it (decoder caches keyed by the
    // type list, scratch buffers): ALL ordered pairs over the lists of length 1 and an evenly spread
    // subset of the lists of length 2, both byte orders
    {
        let mut lists: Vec<(Vec<Field>, bool)> = vec![];
        for big in [false, true] {
            for a in alpha.iter() {
                lists.push((vec![a.clone()], big));
            }
            let step = ((n * n) / 120).max(1);
            let mut j = 0;
            while j < n * n {
                lists.push((vec![alpha[(j % n) as usize].clone(), alpha[(j / n) as usize].clone()], big));
                j += step;
            }
        }
        let m = lists.len() as u64;
        let lists = &lists;
        ctx.run_family(Family::new("c13.history", m * m, format!("ALL ordered pairs (a, b) over {} (field list, byte order) cases (every list of length 1, every {}th of length 2): a is constructed from its exact payload, then b is judged (exact payload, every truncation, trailing bytes) twice on the same thread", m, ((n * n) / 120).max(1)), move |i, loc| {
            let (a, b) = (&lists[(i / m) as usize], &lists[(i % m) as usize]);
            let mut data = vec![];
            for f in &a.0 {
                encode_field(f, a.1, &mut data);
            }
            let types: Vec<TypeInfo> = a.0.iter().enumerate().map(|(k, f)| type_info_flagged(kind_of(f), k, a.0.len())).collect();
            let _ = catch(|| construct_arguments(if a.1 { Endianness::Big } else { Endianness::Little }, &types, &data).map(|v| v.len()));
            judge(&b.0, b.1, loc);
            judge(&b.0, b.1, loc);
        }).distinct());
    }
    // every kind x every combination of the type's flags and string coding, alone and after another field
    {
        let kinds = supported_kinds();
        let sp = Space::new(&[kinds.len(), 2, 2, 2, 2, 2]);
        let s2 = sp.clone();
        let kinds = &kinds;
        ctx.run_family(Family::new("c13.type_flags", sp.size(), "every supported kind x {variable-info flag} x {trace-info flag} x {ASCII, UTF8 coding} in the given type x {alone, after a uint16} x both byte orders: the argument carries exactly the given type, the value of its field and no name / unit", move |i, loc| {
            let c = s2.coords(i);
            let k = kinds[c[0]];
            let ti = TypeInfo { kind: kind_to_crate(k), coding: if c[3] == 0 { StringCoding::ASCII } else { StringCoding::UTF8 }, has_variable_info: c[1] == 1, has_trace_info: c[2] == 1 };
            let f = match k {
                RefKind::Str => Field::Val(k, RefValue::Str("h\u{e9}".into())),
                RefKind::Raw => Field::Val(k, RefValue::Raw(vec![1, 2, 3])),
                RefKind::Bool => Field::Val(k, RefValue::Bool(1)),
                _ => Field::Val(k, default_value(k)),
            };
            let big = c[5] == 1;
            let e = if big { Endianness::Big } else { Endianness::Little };
            let mut data = vec![];
            let mut types = vec![];
            if c[4] == 1 {
                encode_field(&Field::Val(RefKind::Uint(2), RefValue::U(0x1234, 2)), big, &mut data);
                types.push(type_info_for(RefKind::Uint(2), 0));
            }
            encode_field(&f, big, &mut data);
            types.push(ti.clone());
            loc.evals += 1;
            loc.transitions += 1;
            loc.traces += 1;
            loc.state(i + 0x7100_0000, true);
            let details = || json!({"type": format!("{:?}", ti), "data_hex": hex_short(&data)});
            match catch(|| construct_arguments(e, &types, &data)) {
                Err(p) => loc.violation("construct_arguments panics", format!("construct_arguments panicked ({}) for type {:?}, data {}", p, ti, hex_short(&data)), details()),
                Ok(Err(err)) => loc.violation("sufficient payload refused", format!("construct_arguments returned {:?} for type {:?}, data {}", err, ti, hex_short(&data)), details()),
                Ok(Ok(args)) => {
                    let expect = match &f {
                        Field::Val(_, v) => value_to_crate(v),
                        _ => unreachable!(),
                    };
                    match args.last() {
                        Some(a) if args.len() == types.len() && a.type_info == ti && same_value_bits(&a.value, &expect) && a.name.is_none() && a.unit.is_none() && a.fixed_point.is_none() => loc.outcome("type carried as given"),
                        _ => loc.violation("constructed argument does not carry the given type", format!("given type {:?}, data {}: got {:?}", ti, hex_short(&data), args.iter().map(|a| format!("{:?} value {:?} name {:?} unit {:?}", a.type_info, a.value, a.name, a.unit)).collect::<Vec<_>>()), details()),
                    }
                }
            }
        }));
    }
    {
        let small: Vec<Field> = {
            let mut seen = std::collections::HashSet::new();
            let mut v = vec![];
            for f in alpha.iter() {
                let k = format!("{:?}", kind_of(f));
                let c = seen.iter().filter(|x: &&String| **x == k).count();
                if c < 2 || matches!(f, Field::BadStr(_)) {
                    seen.insert(format!("{}{}", k, c));
                    seen.insert(k.clone());
                    v.push(f.clone());
                }
            }
            v
        };
        let m = small.len() as u64;
        let small = &small;
        ctx.run_family(Family::new("c13.lists3", m * m * m * 2, format!("all field lists of length 3 over a reduced {}-symbol field alphabet x both byte orders x every truncation + trailing bytes", m), move |i, loc| {
            let big = i % 2 == 1;
            let mut j = i / 2;
            let mut fields = vec![];
            for _ in 0..3 {
                fields.push(small[(j % m) as usize].clone());
                j /= m;
            }
            judge(&fields, big, loc);
        }));
    }
    // long lists: cursor arithmetic far beyond 255 / 65535 bytes and many arguments
    {
        let kinds = supported_kinds();
        let counts: Vec<usize> = {
            let mut v: Vec<usize> = (4..=40).collect();
            v.extend([63, 64, 65, 100, 127, 128, 129, 254, 255, 256, 257, 300, 1000, 4097]);
            if ctx.tier == Tier::Thorough {
                v.extend([8191, 8192, 8193, 16_384, 32_768, 65_535, 65_536, 70_000]);
            } else {
                v.extend([8192, 8193, 65_536]);
            }
            v
        };
        // list shapes: 0..15 = homogeneous runs of each of the 15 supported kinds (values varying
        // with the position), 15 = cycling through every kind, 16 = cycling backwards
        let nshapes = kinds.len() + 2;
        let sp = Space::new(&[counts.len(), nshapes, 2]);
        let s2 = sp.clone();
        let (counts, kinds) = (&counts, &kinds);
        ctx.run_family(Family::new("c13.long_lists", sp.size(), format!("lists of N fields for N in {:?} x {} shapes (a homogeneous run of each supported kind with position-dependent values -- payloads beyond 65535 bytes for the wide kinds --, cycling through the 15 kinds forwards / backwards) x both byte orders; exact payload, trailing bytes and the truncations around field boundaries", counts, nshapes), move |i, loc| {
            let c = s2.coords(i);
            let n = counts[c[0]];
            let shape = c[1];
            // strings / raw data / cycling shapes stay below ~1.2 MB
            let wide = shape >= kinds.len() || matches!(kinds[shape.min(kinds.len() - 1)], RefKind::Str | RefKind::Raw);
            let n = if wide && n > 8193 { 8193 } else { n };
            let val = |k: RefKind, j: usize| -> RefValue {
                match k {
                    RefKind::Bool => RefValue::Bool((j % 2) as u8),
                    RefKind::Uint(w) => RefValue::U((0x0102_0304_0506_0708_090A_0B0C_0D0E_0F10u128 ^ (j as u128 * 0x0101)) & if w == 16 { u128::MAX } else { (1u128 << (8 * w as u32)) - 1 }, w),
                    RefKind::Sint(w) => {
                        let bits = 8 * w as u32;
                        let raw = (0xF1E2_D3C4_B5A6_9788_796A_5B4C_3D2E_1F00u128 ^ (j as u128 * 0x0301)) & if w == 16 { u128::MAX } else { (1u128 << bits) - 1 };
                        let v: i128 = if w == 16 { raw as i128 } else if raw >> (bits - 1) & 1 == 1 { raw as i128 - (1i128 << bits) } else { raw as i128 };
                        RefValue::I(v, w)
                    }
                    RefKind::Float(4) => RefValue::F32(0x3F80_0000u32.wrapping_add((j as u32).wrapping_mul(0x0001_0203))),
                    RefKind::Float(_) => RefValue::F64(0x3FF0_0000_0000_0000u64.wrapping_add((j as u64).wrapping_mul(0x0001_0203_0405_0607))),
                    RefKind::Str => RefValue::Str(["ab", "", "é€", "xyz"][j % 4].to_string()),
                    RefKind::Raw => RefValue::Raw(vec![j as u8; j % 5]),
                    _ => default_value(k),
                }
            };
            let fields: Vec<Field> = (0..n)
                .map(|j| {
                    let k = if shape < kinds.len() { kinds[shape] } else if shape == kinds.len() { kinds[j % kinds.len()] } else { kinds[kinds.len() - 1 - (j % kinds.len())] };
                    Field::Val(k, val(k, j))
                })
                .collect();
            judge_cuts(&fields, c[2] == 1, true, loc);
        }).chunk(1));
    }
    // length sweep of string / raw fields between two fixed-size fields
    {
        let lens = crate::universe::sweep_lengths(ctx.tier);
        let sp = Space::new(&[lens.len(), 2, 2]);
        let s2 = sp.clone();
        let lens = &lens;
        ctx.run_family(Family::new("c13.len_sweep", sp.size(), format!("[uint8, string|raw of L bytes, uint16] for {} lengths L ({}) x both byte orders; exact, trailing bytes, truncations around the field boundaries", lens.len(), crate::universe::sweep_lengths_about(ctx.tier)), move |i, loc| {
            let c = s2.coords(i);
            let l = lens[c[0]].min(65_535);
            let mid = if c[1] == 0 { Field::Val(RefKind::Str, RefValue::Str("s".repeat(l))) } else { Field::Val(RefKind::Raw, RefValue::Raw((0..l).map(|k| (k * 13 + l) as u8).collect())) };
            let fields = vec![Field::Val(RefKind::Uint(1), RefValue::U(7, 1)), mid, Field::Val(RefKind::Uint(2), RefValue::U(0x0102, 2))];
            judge_cuts(&fields, c[2] == 1, true, loc);
        }));
    }
    // one multi-byte character at every byte offset of a string field (block-wise validators)
    {
        let mut cases: Vec<(usize, usize)> = vec![]; // (ascii length, offset)
        let n0 = ctx.tier.pick(1200usize, 9000usize);
        for o in 0..=n0 {
            cases.push((n0, o));
        }
        let n1 = 65_400usize;
        let mut k = 1024usize;
        while k < n1 {
            for d in 0..9usize {
                cases.push((n1, k + d - 4));
            }
            k += 1024;
        }
        let chars = ['é', '€', '😀'];
        let sp = Space::new(&[cases.len(), chars.len(), 2]);
        let s2 = sp.clone();
        let cases = &cases;
        ctx.run_family(Family::new("c13.char_positions", sp.size(), format!("[uint8, string, uint16] where the string is ASCII text with one 2-, 3- or 4-byte character at EVERY byte offset 0..={} and at the 9 offsets around every multiple of 1024 of a 65400-byte string x both byte orders; exact payload, trailing bytes, truncations around the field boundaries", n0), move |i, loc| {
            let c = s2.coords(i);
            let (n, o) = cases[c[0]];
            let mut t = String::with_capacity(n + 4);
            t.push_str(&"a".repeat(o));
            t.push(chars[c[1]]);
            t.push_str(&"b".repeat(n - o));
            let fields = vec![Field::Val(RefKind::Uint(1), RefValue::U(7, 1)), Field::Val(RefKind::Str, RefValue::Str(t)), Field::Val(RefKind::Uint(2), RefValue::U(0x0102, 2))];
            judge_cuts(&fields, c[2] == 1, true, loc);
        }));
    }
    // value sweep: bit-level coverage of every numeric kind, at an even and at an odd offset
    {
        let args: Vec<Field> = crate::universe::value_sweep_args(ctx.tier).into_iter().filter(|a| !is_fixp(a.kind)).map(|a| Field::Val(a.kind, a.value)).collect();
        let sp = Space::new(&[args.len(), 2, 2]);
        let s2 = sp.clone();
        let args = &args;
        ctx.run_family(Family::new("c13.value_sweep", sp.size(), format!("{} single values (all 256 values of the 8-bit kinds, 16-bit kinds over all low bytes, walking ones/zeros of the 32..128-bit kinds, float exponent sweeps) alone or after a bool (odd offset) x both byte orders", args.len()), move |i, loc| {
            let c = s2.coords(i);
            let mut fields = vec![];
            if c[1] == 1 {
                fields.push(Field::Val(RefKind::Bool, RefValue::Bool(1)));
            }
            fields.push(args[c[0]].clone());
            judge(&fields, c[2] == 1, loc);
        }));
    }
    // maximal length prefixes
    {
        let cases: Vec<(RefKind, usize)> = vec![(RefKind::Str, 65_535), (RefKind::Raw, 65_535), (RefKind::Str, 65_534), (RefKind::Raw, 32_768)];
        let cases = &cases;
        ctx.run_family(Family::new("c13.max_prefix", cases.len() as u64 * 2 * 5, "string / raw fields with length prefix 65535, 65534, 32768 followed by a uint16: exact, one byte short, prefix only, one trailing byte, empty", move |i, loc| {
            let c = &cases[(i / 10) as usize];
            let big = (i / 5) % 2 == 1;
            let f1 = if c.0 == RefKind::Str { Field::Val(RefKind::Str, RefValue::Str("q".repeat(c.1))) } else { Field::Val(RefKind::Raw, RefValue::Raw(vec![0x5A; c.1])) };
            let f2 = Field::Val(RefKind::Uint(2), RefValue::U(0x0102, 2));
            let mut exact = vec![];
            encode_field(&f1, big, &mut exact);
            encode_field(&f2, big, &mut exact);
            let types = vec![type_info_for(c.0, 0), type_info_for(RefKind::Uint(2), 1)];
            let data: Vec<u8> = match i % 5 {
                0 => exact.clone(),
                1 => exact[..exact.len() - 1].to_vec(),
                2 => exact[..2].to_vec(),
                3 => {
                    let mut d = exact.clone();
                    d.push(0);
                    d
                }
                _ => vec![],
            };
            let e = if big { Endianness::Big } else { Endianness::Little };
            loc.evals += 1;
            loc.transitions += 1;
            loc.traces += 1;
            loc.state(i, i % 5 == 0 || i % 5 == 3);
            let expect_ok = i % 5 == 0 || i % 5 == 3;
            match catch(|| construct_arguments(e, &types, &data)) {
                Err(p) => loc.violation("construct_arguments panics (max prefix)", format!("construct_arguments panicked ({}) for a {:?} field of {} bytes, {} data bytes", p, c.0, c.1, data.len()), json!({"len": c.1})),
                Ok(r) => {
                    let good = match &r {
                        Ok(a) => expect_ok && a.len() == 2 && a[1].value == Value::U16(0x0102) && match &a[0].value { Value::StringVal(s) => s.len() == c.1, Value::Raw(x) => x.len() == c.1, _ => false },
                        Err(_) => !expect_ok,
                    };
                    if good {
                        loc.outcome(if expect_ok { "max prefix decoded" } else { "max prefix refused when short" });
                    } else {
                        loc.violation("maximal length prefix handled wrongly", format!("{:?} field of {} bytes with {} data bytes: result ok={} (expected ok={})", c.0, c.1, data.len(), r.is_ok(), expect_ok), json!({"len": c.1}));
                    }
                }
            }
        }));
    }
    // fixed-point kinds: no panic on any data up to 20 bytes of a byte pattern
    {
        let fk = [RefKind::SFix(4), RefKind::UFix(4), RefKind::SFix(8), RefKind::UFix(8)];
        let others = supported_kinds();
        let no = others.len() as u64;
        let others = &others;
        ctx.run_family(Family::new("c13.fixed_point", 4 * (no + 1) * 2 * 2 * 22, "fixed-point signal types alone, before or after each other kind x both byte orders x data of 0..=21 bytes (no-panic clause only)", move |i, loc| {
            let mut j = i;
            let len = (j % 22) as usize;
            j /= 22;
            let big = j % 2 == 1;
            j /= 2;
            let first = j % 2 == 1;
            j /= 2;
            let other = j % (no + 1);
            j /= no + 1;
            let mut types = vec![type_info_for(fk[j as usize], 0)];
            if other < no {
                let t = type_info_for(others[other as usize], 1);
                if first {
                    types.insert(0, t);
                } else {
                    types.push(t);
                }
            }
            let data: Vec<u8> = (0..len).map(|k| [0u8, 1, 0, 2, 0xFF, 0x80, 0x3F, 0][k % 8]).collect();
            loc.evals += 1;
            loc.transitions += 1;
            loc.traces += 1;
            loc.state(i, false);
            let e = if big { Endianness::Big } else { Endianness::Little };
            if let Err(p) = catch(|| construct_arguments(e, &types, &data)) {
                loc.violation("construct_arguments panics (fixed point)", format!("construct_arguments panicked ({}) for types {:?}, {:?}, data {}", p, types.iter().map(|t| &t.kind).collect::<Vec<_>>(), e, hex(&data)), json!({"data_hex": hex(&data)}));
            } else {
                loc.outcome("no panic");
            }
        }));
    }
}
