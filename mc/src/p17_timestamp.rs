//! C17 -- timestamps built from milliseconds / microseconds denote the same instant.
//! Space: ALL sub-second residues (1000 for ms, 10^6 for us) x a boundary set of whole-second
//! quotients (0, 1, 2, 2^k-1, 2^k, 2^k+1 ... 2^32-1).  Complete over the sub-second part.
use crate::common::*;
use dlt_core::dlt::DltTimeStamp;
use serde_json::json;

fn quotients(tier: Tier) -> Vec<u64> {
    let mut q: Vec<u64> = vec![0, 1, 2, 3, 4, 4294, 4295, 4_294_967, 4_294_968, u32::MAX as u64 - 1, u32::MAX as u64];
    let ks: Vec<u32> = match tier {
        Tier::Quick => vec![8, 16, 31],
        Tier::Thorough => (2..32).collect(),
    };
    for k in ks {
        let p = 1u64 << k;
        q.extend_from_slice(&[p - 1, p, p + 1]);
    }
    if tier == Tier::Thorough {
        // powers of ten and their neighbours
        let mut t = 10u64;
        while t < (1u64 << 32) {
            q.extend_from_slice(&[t - 1, t, t + 1]);
            t *= 10;
        }
    }
    q.retain(|v| *v <= u32::MAX as u64);
    q.sort_unstable();
    q.dedup();
    q
}

fn judge(unit: &str, input: u64, loc: &mut Local) {
    let per_sec: u64 = if unit == "ms" { 1000 } else { 1_000_000 };
    let in_us: u128 = if unit == "ms" { input as u128 * 1000 } else { input as u128 };
    loc.evals += 1;
    loc.transitions += 1;
    loc.traces += 1;
    loc.state(mix(input, per_sec), input % per_sec != 0);
    let r = catch(|| if unit == "ms" { DltTimeStamp::from_ms(input) } else { DltTimeStamp::from_us(input) });
    match r {
        Err(p) => {
            loc.outcome("panic");
            loc.violation(
                format!("from_{} panics", unit),
                format!("DltTimeStamp::from_{}({}) panicked: {}", unit, input, p),
                json!({"unit": unit, "input": input, "panic": p}),
            );
        }
        Ok(ts) => {
            let got = ts.seconds as u128 * 1_000_000 + ts.microseconds as u128;
            if got != in_us || ts.microseconds >= 1_000_000 {
                loc.outcome("wrong");
                loc.violation(
                    format!("from_{} wrong instant", unit),
                    format!(
                        "DltTimeStamp::from_{}({}) = {{seconds: {}, microseconds: {}}}; expected seconds {} microseconds {}",
                        unit, input, ts.seconds, ts.microseconds, in_us / 1_000_000, in_us % 1_000_000
                    ),
                    json!({"unit": unit, "input": input, "seconds": ts.seconds, "microseconds": ts.microseconds}),
                );
            } else {
                loc.outcome("exact");
            }
            loc.sample(|| json!({"call": format!("from_{}({})", unit, input), "seconds": ts.seconds, "microseconds": ts.microseconds}));
        }
    }
}

pub fn run(ctx: &Ctx) {
    ctx.enable_trace_pass(ctx.tier.pick(20000u64, 200000u64));
    ctx.set_rule("case = (unit, input); every residue 0..unit-per-second is combined with every quotient of the boundary set; non-trivial = sub-second residue != 0; states deduplicated by hash(unit,input)");
    ctx.assume("whole-second quotients outside the boundary set (0,1,2,3,4, 2^k-1/2^k/2^k+1, powers of ten +-1, 2^32-2, 2^32-1) are not visited; the arithmetic is a division and a remainder, so the sub-second residue (visited completely) and the quotient do not interact");
    let q = quotients(ctx.tier);
    ctx.put("quotients", json!(q));
    for (unit, per) in [("ms", 1000u64), ("us", 1_000_000u64)] {
        let qs = q.clone();
        let size = per * qs.len() as u64;
        ctx.run_family(Family::new(
            format!("c17.from_{}", unit),
            size,
            format!("all {} residues x {} whole-second quotients", per, qs.len()),
            move |idx, loc| {
                let res = idx % per;
                let quo = qs[(idx / per) as usize];
                judge(unit, quo * per + res, loc);
            },
        ));
    }
    // contiguous ranges: every input, no alphabet
    for (unit, per) in [("ms", 1000u64), ("us", 1_000_000u64)] {
        let low: u64 = match (ctx.tier, unit) {
            (Tier::Quick, "ms") => 1 << 30,
            (Tier::Quick, _) => (1 << 32) + (1 << 22),
            (Tier::Thorough, "ms") => 1 << 35,
            (Tier::Thorough, _) => 1 << 36,
        };
        ctx.run_family(Family::new(format!("c17.from_{}.low_range", unit), low, format!("EVERY input 0..{} (contiguous; covers the whole range in which 32-bit intermediate arithmetic could be used and every carry into the seconds up to {} s)", low, low / per), move |idx, loc| judge(unit, idx, loc)).distinct());
        let max = (u32::MAX as u64) * per + (per - 1);
        let high: u64 = ctx.tier.pick(1 << 24, 1 << 28);
        ctx.run_family(Family::new(format!("c17.from_{}.high_range", unit), high, format!("EVERY input in the last {} values of the legal domain (up to {} = (2^32-1) s + the largest sub-second part)", high, max), move |idx, loc| judge(unit, max - idx, loc)).distinct());
        // around every whole second of the first 2^32 / per seconds and around powers of two of the input
        let secs: u64 = ctx.tier.pick(70_000u64, 4_300_000u64).min(u32::MAX as u64);
        let win: u64 = 24;
        ctx.run_family(Family::new(format!("c17.from_{}.second_ends", unit), secs * 2 * win, format!("for every whole second 1..={}: the {} inputs before and after the second boundary", secs, win), move |idx, loc| {
            let s = idx / (2 * win) + 1;
            let d = idx % (2 * win);
            judge(unit, s * per - win + d, loc);
        }).distinct());
        ctx.run_family(Family::new(format!("c17.from_{}.bit_boundaries", unit), 64 * 2 * 4096, "for every power of two 2^k of the input (k < 64) inside the legal domain: the 4096 inputs before and after it".to_string(), move |idx, loc| {
            let k = idx / 8192;
            let d = idx % 8192;
            let base = 1u128 << k;
            let v = base + d as u128;
            if v >= 4096 && v - 4096 <= max as u128 {
                judge(unit, (v - 4096) as u64, loc);
            }
        }).distinct());
    }
    // history: the result of one construction must not depend on the constructions before it
    // (memoised "current second", shared scratch state): ALL ordered pairs of (unit, input) symbols,
    // where the same raw numbers occur under both units
    {
        let mut raw: Vec<u64> = vec![0, 1, 299, 300, 999, 1000, 1001, 1999, 2000, 59_999, 60_000, 999_999, 1_000_000, 1_000_001, 1_000_300, 4_999_999, 5_000_000, 5_000_300, 5_999_999, 6_000_000, 1_700_000_000, 1_700_000_000_000, 1_700_000_000_300, 1_700_000_000_000_000, 1_700_000_000_000_300, 1_700_000_000_999_999, 1_700_000_001_000_000];
        for k in [10u32, 20, 31, 32, 33, 40, 41, 42] {
            let p = 1u64 << k;
            raw.extend_from_slice(&[p - 1, p, p + 1, p + 300, p + 1000, p + 1_000_000]);
        }
        for per in [1000u64, 1_000_000] {
            let max = (u32::MAX as u64) * per + (per - 1);
            raw.extend_from_slice(&[max, max - 1, max - per, max - per + 1, (u32::MAX as u64) * per, (1u64 << 31) * per, (1u64 << 31) * per - 1]);
        }
        raw.sort_unstable();
        raw.dedup();
        let syms: Vec<(&'static str, u64)> = [("ms", 1000u64), ("us", 1_000_000u64)].iter().flat_map(|(u, per)| raw.iter().filter(move |v| **v <= (u32::MAX as u64) * per + (per - 1)).map(move |v| (*u, *v))).collect();
        let n = syms.len() as u64;
        let syms = &syms;
        ctx.run_family(Family::new("c17.history", n * n, format!("ALL ordered pairs (a, b) over {} symbols (unit, input): {} raw numbers (sub-second, second and minute boundaries, present-day epoch values, powers of two, the ends of both domains) under each unit in whose domain they lie; a is constructed, then b is judged twice on the same thread", n, raw.len()), move |idx, loc| {
            let (a, b) = (syms[(idx / n) as usize], syms[(idx % n) as usize]);
            let _ = catch(|| if a.0 == "ms" { DltTimeStamp::from_ms(a.1) } else { DltTimeStamp::from_us(a.1) });
            judge(b.0, b.1, loc);
            judge(b.0, b.1, loc);
        }).distinct());
    }
}
