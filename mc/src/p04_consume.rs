//! C04 -- a successful parse consumes exactly the declared message and makes progress.
//! Oracle computed from the input bytes alone (no reference decoder needed):
//!   base = 0 (no storage header) | first pattern offset + 16; LEN = big-endian u16 at base+2;
//!   Ok((rest, Item|FilteredOut(n)|Invalid)) => rest == input[base+LEN..], n == LEN - headers(HTYP);
//!   dlt_consume_msg Ok((rest, Some(c))) => rest == input[16+LEN..], c == 16+LEN;
//!   remainders with and without filter coincide; repeated parsing visits exactly the boundaries.
use crate::common::*;
use crate::inputs::*;
use crate::refmodel::{all_headers_len, find_pattern};
use dlt_core::dlt::LogLevel;
use dlt_core::filtering::ProcessedDltFilterConfig;
use dlt_core::parse::{dlt_consume_msg, dlt_message, ParsedMessage};
use serde_json::json;
use std::collections::HashSet;

pub fn filter_configs() -> Vec<(&'static str, Option<ProcessedDltFilterConfig>)> {
    let set = |v: &[&str]| -> HashSet<String> { v.iter().map(|s| s.to_string()).collect() };
    vec![
        ("no filter", None),
        ("filter that keeps everything", Some(crate::common::PF { min_log_level: None, app_ids: None, ecu_ids: None, context_ids: None, app_id_count: 0, context_id_count: 0 }.build())),
        ("filter that drops everything (empty app-id set, count 1)", Some(crate::common::PF { min_log_level: None, app_ids: Some(set(&[])), ecu_ids: None, context_ids: None, app_id_count: 1, context_id_count: 0 }.build())),
        ("min level Error + ECU ids {ECU1}", Some(crate::common::PF { min_log_level: Some(LogLevel::Error), app_ids: None, ecu_ids: Some(set(&["ECU1"])), context_ids: None, app_id_count: 0, context_id_count: 0 }.build())),
        ("context ids {CTX}, count 2", Some(crate::common::PF { min_log_level: None, app_ids: None, ecu_ids: None, context_ids: Some(set(&["CTX"])), app_id_count: 0, context_id_count: 2 }.build())),
        ("ECU ids {NOPE} (rejects every message that names its ECU) + min level Fatal", Some(crate::common::PF { min_log_level: Some(LogLevel::Fatal), app_ids: None, ecu_ids: Some(set(&["NOPE"])), context_ids: None, app_id_count: 0, context_id_count: 0 }.build())),
    ]
}

/// expected (message start, end) from the bytes alone; None if not computable (no pattern / short)
pub fn expected_span(input: &[u8], with_storage: bool) -> Option<(usize, usize)> {
    let base = if with_storage { find_pattern(input)? + 16 } else { 0 };
    if input.len() < base + 4 {
        return None;
    }
    let len = ((input[base + 2] as usize) << 8) | input[base + 3] as usize;
    Some((base, base + len))
}

pub fn judge(input: &[u8], with_storage: bool, filters: &[(&'static str, Option<ProcessedDltFilterConfig>)], loc: &mut Local) {
    loc.evals += 1;
    loc.traces += 1;
    let mut any_ok = false;
    let mut rest_offsets: Vec<(usize, &'static str)> = vec![];
    let details = |what: &str| json!({"input_hex": hex_short(input), "input_len": input.len(), "with_storage_header": with_storage, "config": what});
    for (fname, f) in filters {
        loc.transitions += 1;
        let r = catch(|| dlt_message(input, f.as_ref(), with_storage).map(|(rest, pm)| (rest.len(), rest.as_ptr() as usize, pm)));
        let (rest_len, rest_ptr, pm) = match r {
            Err(_) => {
                loc.outcome("panic (judged by C03)");
                continue;
            }
            Ok(Err(_)) => {
                loc.outcome("error");
                continue;
            }
            Ok(Ok(x)) => x,
        };
        // an Ok result is a success whatever it carries - also the `Invalid` marker: a caller goes
        // on from the remainder it was handed
        any_ok = true;
        let off = input.len() - rest_len;
        // the remainder must be a sub-slice of the input ending at its end
        if rest_len > input.len() || rest_ptr != input.as_ptr() as usize + off {
            loc.violation("remainder is not a suffix of the input", format!("remainder ({} bytes) is not the tail of the input {} [{}; storage mode {}]", rest_len, hex_short(input), fname, with_storage), details(fname));
            continue;
        }
        let (base, end) = match expected_span(input, with_storage) {
            Some(x) => x,
            None => {
                loc.violation("success without a length field", format!("dlt_message succeeded although the input holds no complete length field: {} [{}; storage mode {}]", hex_short(input), fname, with_storage), details(fname));
                continue;
            }
        };
        if off != end || rest_len >= input.len() {
            loc.outcome("misaligned remainder");
            loc.violation(
                if f.is_some() { "remainder not at declared end (with filter)" } else { "remainder not at declared end" },
                format!("message starts at {} and declares LEN {} so it ends at {}, but the remainder starts at {} ({:?}) on input {} [{}; storage mode {}]", base, end - base, end, off, std::mem::discriminant(&pm), hex_short(input), fname, with_storage),
                details(fname),
            );
            continue;
        }
        if let ParsedMessage::FilteredOut(n) = pm {
            let expect = (end - base) as i64 - all_headers_len(input[base]) as i64;
            if n as i64 != expect {
                loc.outcome("wrong filtered-out length");
                loc.violation("FilteredOut carries wrong payload length", format!("FilteredOut({}) but LEN - headers = {} on input {} [{}; storage mode {}]", n, expect, hex_short(input), fname, with_storage), details(fname));
                continue;
            }
            loc.outcome("filtered out, aligned");
        } else if let ParsedMessage::Invalid = pm {
            loc.outcome("invalid marker, aligned");
        } else {
            loc.outcome("item, aligned");
        }
        rest_offsets.push((off, fname));
    }
    // all successful configurations agree on where the next message starts (implied by the
    // absolute check above; kept as a differential guard)
    if let Some((first, fname0)) = rest_offsets.first() {
        for (o, fname) in &rest_offsets[1..] {
            if o != first {
                loc.violation("filter changes the remainder", format!("remainder offset {} with [{}] but {} with [{}] on input {}", first, fname0, o, fname, hex_short(input)), details(fname));
            }
        }
    }
    // the message skipper (requires the storage header at offset 0)
    loc.transitions += 1;
    match catch(|| dlt_consume_msg(input).map(|(rest, c)| (rest.len(), rest.as_ptr() as usize, c))) {
        Ok(Ok((rest_len, rest_ptr, Some(c)))) => {
            any_ok = true;
            let len = if input.len() >= 20 { ((input[18] as usize) << 8) | input[19] as usize } else { usize::MAX };
            let off = input.len().wrapping_sub(rest_len);
            if !input.starts_with(b"DLT\x01") || input.len() < 20 || off != 16 + len || c != (16 + len) as u64 || rest_ptr != input.as_ptr() as usize + off {
                loc.outcome("skipper misaligned");
                loc.violation("dlt_consume_msg wrong remainder or count", format!("dlt_consume_msg reported {} consumed, remainder at {}, but 16 + LEN = {} on input {}", c, off, (16usize).wrapping_add(len), hex_short(input)), details("dlt_consume_msg"));
            } else {
                loc.outcome("skipper aligned");
            }
        }
        Ok(Ok((rest_len, _, None))) => {
            if !input.is_empty() || rest_len != 0 {
                loc.violation("dlt_consume_msg reports no message on non-empty input", format!("dlt_consume_msg returned (.., None) on non-empty input {}", hex_short(input)), details("dlt_consume_msg"));
            }
        }
        _ => {}
    }
    loc.state(mix(loc.input_hash(input), with_storage as u64), any_ok);
    if any_ok {
        loc.sample(|| json!({"input": hex_short(input), "with_storage_header": with_storage, "remainder_offsets": rest_offsets.iter().map(|(o, f)| json!([o, f])).collect::<Vec<_>>()}));
    }
}

/// repeated parsing of a buffer: visits exactly the boundaries the length fields define
fn judge_loop(input: &[u8], with_storage: bool, loc: &mut Local) {
    loc.evals += 1;
    loc.traces += 1;
    loc.state(mix(loc.input_hash(input), 2 + with_storage as u64), true);
    let mut off = 0usize;
    let mut steps = 0;
    loop {
        let cur = &input[off..];
        loc.transitions += 1;
        steps += 1;
        if steps > input.len() + 2 {
            loc.violation("parse loop does not terminate", format!("repeated parsing made {} steps on a {}-byte buffer {}", steps, input.len(), hex_short(input)), json!({"input_hex": hex_short(input)}));
            return;
        }
        match catch(|| dlt_message(cur, None, with_storage).map(|(rest, _)| rest.len())) {
            Ok(Ok(rest_len)) => {
                let consumed = cur.len() - rest_len;
                match expected_span(cur, with_storage) {
                    Some((_, end)) if end == consumed && consumed > 0 => {
                        off += consumed;
                    }
                    other => {
                        loc.violation("parse loop leaves message boundaries", format!("at offset {} the parser consumed {} bytes, boundaries say {:?}; buffer {}", off, consumed, other, hex_short(input)), json!({"input_hex": hex_short(input), "offset": off}));
                        return;
                    }
                }
            }
            _ => break,
        }
    }
    loc.outcome(&format!("loop ended after {} messages", steps - 1));
}

pub fn run(ctx: &Ctx) {
    ctx.enable_trace_pass(ctx.tier.pick(20000u64, 200000u64));
    ctx.set_rule("case = (byte string, storage mode), judged under 5 filter configurations plus the message skipper; expected boundaries are computed from the input bytes alone; non-trivial = at least one call returned Ok (the premise of the property)");
    ctx.assume("an Ok result carrying ParsedMessage::Invalid is a success like any other: its remainder is judged (the unchanged tree never returns it)");
    let filters = filter_configs();
    let filters = &filters;
    {
        let lows = prefix_sweep_lows(ctx.tier);
        let lows = &lows;
        let tier = ctx.tier;
        ctx.run_family(Family::new("c04.prefix_sweep", prefix_sweep_size(ctx.tier), format!("{} (LEN low bytes {:02x?}) x 6 filter configurations + skipper", PREFIX_SWEEP_ABOUT, lows), move |i, loc| {
            loc.input_hash_override = Some(i);
            with_prefix_sweep_case(i, tier, lows, |input, mode| judge(input, mode, &filters[..if tier == Tier::Quick { filters.len() } else { 3 }], loc));
        }).distinct().trace(3000));
    }
    for f in decode_inputs(ctx.tier) {
        let gen = &f.gen;
        ctx.run_family(Family::new(format!("c04.{}", f.name), f.size * VARIANTS, format!("{} x 3 storage variants x 6 filter configurations + skipper", f.about), move |i, loc| {
            let (input, mode) = variant(gen(i / VARIANTS), i % VARIANTS);
            judge(&input, mode, filters, loc);
        }));
    }
    let c = concatenations(ctx.tier);
    let gen = &c.gen;
    ctx.run_family(Family::new("c04.loop.concat", c.size, format!("parse loop over: {}", c.about), move |i, loc| {
        let b = gen(i);
        judge_loop(&b, i % 2 == 1, loc);
    }));
}
