//! C05 -- every proper prefix of a valid message is reported incomplete, with a safe hint.
//! Space: every message of U (as is, and with a storage header added when it has none)
//! x EVERY cut position 0..len-1 for the parser; cuts 1..len-1 and the empty input for the skipper.
use crate::common::*;
use crate::refmodel::*;
use crate::universe::*;
use dlt_core::parse::{dlt_consume_msg, dlt_message, DltParseError};
use serde_json::json;

thread_local! {
    static FILTERS: std::rc::Rc<Vec<(&'static str, dlt_core::filtering::ProcessedDltFilterConfig)>> = std::rc::Rc::new(crate::p04_consume::filter_configs().into_iter().filter_map(|(n, f)| f.map(|f| (n, f))).filter(|(n, _)| n.starts_with("filter that drops") || n.starts_with("ECU ids {NOPE}")).collect());
}

fn judge_message(m: &RefMsg, loc: &mut Local) {
    let with_storage = m.storage.is_some();
    let bytes = encode(m).0;
    let len = bytes.len();
    // boundary-family messages are ~64 KiB: all cuts of the first and last 600 bytes and every 97th in between
    // the magic-prefix family (21 KiB messages) is cut at every position as well
    let dense = len <= 4096 || (bytes.len() > 20 && (bytes[..3] == *b"DLS" || (with_storage && bytes[16..19] == *b"DLS")));
    loc.state(mix(fnv64(&bytes), with_storage as u64), true);
    loc.traces += 1;
    let details = |cut: usize| json!({"message_hex": hex_short(&bytes), "cut": cut, "len": len, "with_storage_header": with_storage});
    let mut cut = 0usize;
    while cut < len {
        loc.evals += 1;
        loc.transitions += 1;
        let prefix = &bytes[..cut];
        match catch(|| dlt_message(prefix, None, with_storage).map(|(rest, pm)| (rest.len(), format!("{:?}", pm).chars().take(200).collect::<String>()))) {
            Err(p) => loc.violation("parser panics on a prefix", format!("dlt_message panicked ({}) on the first {} of {} bytes of {}", p, cut, len, hex_short(&bytes)), details(cut)),
            Ok(Err(DltParseError::IncompleteParse { needed })) => match needed {
                None => loc.outcome("incomplete, no hint"),
                Some(k) => {
                    if k.get() > len - cut {
                        loc.outcome("hint too large");
                        loc.violation("incomplete hint exceeds the missing bytes", format!("cut at {} of {}: hint says {} bytes needed but only {} are missing; message {}", cut, len, k, len - cut, hex_short(&bytes)), details(cut));
                    } else {
                        loc.outcome("incomplete, safe hint");
                    }
                }
            },
            Ok(Err(e)) => {
                loc.outcome("hard error");
                loc.violation("prefix gives a hard error", format!("cut at {} of {} gives {:?} instead of 'incomplete'; message {} (storage mode {})", cut, len, e, hex_short(&bytes), with_storage), details(cut));
            }
            Ok(Ok((rest, pm))) => {
                loc.outcome("message from a prefix");
                loc.violation("prefix parses as a message", format!("cut at {} of {} parses successfully ({} left, {}); message {}", cut, len, rest, pm, hex_short(&bytes)), details(cut));
            }
        }
        // the same prefix under filters: a filter may only replace a COMPLETE message by a marker
        for (fname, f) in FILTERS.with(|f| f.clone()).iter() {
            loc.transitions += 1;
            match catch(|| dlt_message(prefix, Some(f), with_storage).map(|(rest, pm)| (rest.len(), format!("{:?}", pm).chars().take(80).collect::<String>()))) {
                Ok(Err(DltParseError::IncompleteParse { needed })) => {
                    if let Some(k) = needed {
                        if k.get() > len - cut {
                            loc.violation("incomplete hint exceeds the missing bytes (with filter)", format!("cut at {} of {} with [{}]: hint {} > missing {}", cut, len, fname, k, len - cut), details(cut));
                        }
                    }
                }
                other => {
                    loc.outcome("prefix not incomplete under a filter");
                    loc.violation("prefix is not reported incomplete when a filter is given", format!("cut at {} of {} with [{}] gives {:?} instead of 'incomplete'; message {}", cut, len, fname, other, hex_short(&bytes)), details(cut));
                }
            }
        }
        if with_storage {
            loc.transitions += 1;
            match catch(|| dlt_consume_msg(prefix).map(|(rest, c)| (rest.len(), c))) {
                Err(p) => loc.violation("skipper panics on a prefix", format!("dlt_consume_msg panicked ({}) on the first {} of {} bytes", p, cut, len), details(cut)),
                Ok(Ok((0, None))) if cut == 0 => loc.outcome("skipper: empty input, no message"),
                Ok(Err(DltParseError::IncompleteParse { needed })) if cut > 0 => {
                    if let Some(k) = needed {
                        if k.get() > len - cut {
                            loc.violation("skipper hint exceeds the missing bytes", format!("dlt_consume_msg cut at {} of {}: hint {} > missing {}", cut, len, k, len - cut), details(cut));
                        }
                    }
                    loc.outcome("skipper incomplete");
                }
                Ok(other) => {
                    loc.outcome("skipper wrong");
                    loc.violation("skipper does not report incomplete", format!("dlt_consume_msg on the first {} of {} bytes returned {:?}; message {}", cut, len, other, hex_short(&bytes)), details(cut));
                }
            }
        }
        cut += if dense || cut < 600 || cut + 600 >= len { 1 } else { 97 };
    }
    loc.sample(|| json!({"message": hex_short(&bytes), "cuts": if dense { len } else { 1200 + (len - 1200) / 97 }, "with_storage_header": with_storage}));
}

pub fn run(ctx: &Ctx) {
    ctx.enable_trace_pass(ctx.tier.pick(4000u64, 40000u64));
    ctx.set_rule("case = (message of U, cut position); every message is explored as is and, when it has no storage header, again with one prepended; a state is a distinct message encoding (x mode), evaluations count (message, cut) pairs; all cuts 0..len-1 (for the ~64 KiB boundary messages: all cuts within 600 bytes of either end and every 97th in between)");
    for f in universe(ctx.tier) {
        let gen = &f.gen;
        ctx.run_family(Family::new(format!("c05.{}", f.name), f.size * 2, format!("{} x {{as is, storage header forced}} x every cut position", f.about), move |i, loc| {
            let mut m = gen(i / 2);
            if i % 2 == 1 {
                if m.storage.is_some() {
                    return;
                }
                m.storage = Some(storage(0x0102_0304, 0x0005_0607, "S"));
            }
            judge_message(&m, loc);
        }));
    }
}
