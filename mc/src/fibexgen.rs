//! Abstract FIBEX models, their XML renderings under layout options, and an independent assembler
//! of the expected `FibexMetadata` (the statement of property C11, transcribed).

use dlt_core::dlt::{FloatWidth, StringCoding, TypeInfo, TypeInfoKind, TypeLength};
use dlt_core::fibex::{FibexMetadata, FrameMetadata, FrameMetadataIdentification, PduMetadata};
use std::collections::HashMap;

#[derive(Clone, Debug, PartialEq)]
pub enum Desc {
    Absent,
    /// `<ho:DESC></ho:DESC>`
    Empty,
    /// `<ho:DESC/>`
    EmptyTag,
    Text(String),
}

#[derive(Clone, Debug)]
pub struct SigInst {
    pub id: String,
    pub seq: usize,
    pub signal_ref: String,
}
#[derive(Clone, Debug)]
pub struct Pdu {
    pub id: String,
    pub short_name: String,
    pub desc: Desc,
    pub byte_length: usize,
    pub signals: Vec<SigInst>,
}
#[derive(Clone, Debug)]
pub struct PduInst {
    pub id: String,
    pub seq: usize,
    pub pdu_ref: String,
}
#[derive(Clone, Debug, Default)]
pub struct Manuf {
    pub message_type: Option<String>,
    pub message_info: Option<String>,
    pub application_id: Option<String>,
    pub context_id: Option<String>,
}
#[derive(Clone, Debug)]
pub struct Frame {
    pub id: String,
    pub short_name: String,
    pub byte_length: usize,
    pub pdus: Vec<PduInst>,
    pub manuf: Option<Manuf>,
}
#[derive(Clone, Debug)]
pub struct Signal {
    pub id: String,
    pub coding_ref: String,
}
#[derive(Clone, Debug)]
pub struct Coding {
    pub id: String,
    /// None: CODED-TYPE without the BASE-DATA-TYPE attribute is not in the grammar; always Some
    pub base_type: String,
}

/// top-level element of a document
#[derive(Clone, Debug)]
pub enum Elem {
    Coding(Coding),
    Signal(Signal),
    Pdu(Pdu),
    Frame(Frame),
}

/// layout options of one rendering
#[derive(Clone, Debug)]
pub struct Layout {
    /// permutation of the 5 PDU children: 0 SHORT-NAME, 1 DESC, 2 BYTE-LENGTH, 3 PDU-TYPE, 4 SIGNAL-INSTANCES
    pub pdu_order: [usize; 5],
    /// permutation of the 5 FRAME children: 0 SHORT-NAME, 1 BYTE-LENGTH, 2 FRAME-TYPE, 3 PDU-INSTANCES, 4 MANUFACTURER-EXTENSION
    pub frame_order: [usize; 5],
    /// reference before the sequence number inside instance elements
    pub ref_first: bool,
    /// SIGNAL-REF / PDU-REF / CODED-TYPE as start+end elements instead of empty elements
    pub refs_open_close: bool,
    /// permutation of the manufacturer-extension children 0 MESSAGE_TYPE 1 MESSAGE_INFO 2 APPLICATION_ID 3 CONTEXT_ID
    pub manuf_order: [usize; 4],
    /// extra noise elements (ECU with its own manufacturer extension, comments, unknown elements)
    pub noise: bool,
    pub indent: bool,
    /// a DESC element inside CODING, SIGNAL and FRAME elements (only a PDU's DESC is part of the model)
    pub foreign_desc: bool,
    /// extra namespaced attributes whose local names END in the names the loader looks up (ID, ID-REF,
    /// BASE-DATA-TYPE), placed BEFORE the real attribute
    pub foreign_attrs: bool,
    /// where CODING elements go: 0 inside fx:ELEMENTS like every other section (document order as
    /// listed); 1 all codings in fx:PROCESSING-INFORMATION AFTER fx:ELEMENTS (the place the FIBEX
    /// schema gives them); 2 in fx:PROCESSING-INFORMATION BEFORE fx:ELEMENTS; 3 after fx:ELEMENTS
    /// with further sections (fx:REQUIREMENTS) in between
    pub codings_place: usize,
}
impl Default for Layout {
    fn default() -> Self {
        Layout { pdu_order: [0, 1, 2, 3, 4], frame_order: [0, 1, 2, 3, 4], ref_first: false, refs_open_close: false, manuf_order: [0, 1, 2, 3], noise: false, indent: true, foreign_desc: false, foreign_attrs: false, codings_place: 0 }
    }
}

pub fn permutation(n: usize, mut idx: usize) -> Vec<usize> {
    let mut items: Vec<usize> = (0..n).collect();
    let mut out = vec![];
    for i in (1..=n).rev() {
        let f = factorial(i - 1);
        let k = idx / f;
        idx %= f;
        out.push(items.remove(k));
    }
    out
}
pub fn factorial(n: usize) -> usize {
    (1..=n).product()
}

fn esc(s: &str) -> String {
    s.replace('&', "&amp;").replace('<', "&lt;").replace('>', "&gt;").replace('"', "&quot;")
}

pub fn render_elem(e: &Elem, l: &Layout, out: &mut String) {
    let mut tmp = String::new();
    render_elem_inner(e, l, &mut tmp);
    if l.foreign_attrs {
        // further schema attributes of CODED-TYPE that the model does not use (the base data type decides)
        tmp = tmp.replace(" CATEGORY=\"STANDARD-LENGTH-TYPE\"", " CATEGORY=\"STANDARD-LENGTH-TYPE\" ENCODING=\"UCS-2\" TERMINATION=\"ZERO\"");
        // decoy attributes in front of the looked-up ones
        tmp = tmp.replace(" ID=\"", " ext:OID=\"decoy-oid\" x:UUID=\"f81d4fae\" ID=\"").replace(" ID-REF=\"", " ext:KID-REF=\"decoy-ref\" ID-REF=\"").replace(" ho:BASE-DATA-TYPE=\"", " ext:ALT-BASE-DATA-TYPE=\"A_FLOAT64\" ho:BASE-DATA-TYPE=\"");
    }
    out.push_str(&tmp);
}

fn render_elem_inner(e: &Elem, l: &Layout, out: &mut String) {
    let nl = if l.indent { "\n" } else { "" };
    let ind = |n: usize| if l.indent { "    ".repeat(n) } else { String::new() };
    match e {
        Elem::Coding(c) => {
            out.push_str(&format!("{}<fx:CODING ID=\"{}\">{}", ind(3), esc(&c.id), nl));
            out.push_str(&format!("{}<ho:SHORT-NAME>{}</ho:SHORT-NAME>{}", ind(4), esc(&c.id), nl));
            if l.foreign_desc {
                out.push_str(&format!("{}<ho:DESC>description of coding {}</ho:DESC>{}", ind(4), esc(&c.id), nl));
            }
            if l.refs_open_close {
                out.push_str(&format!("{}<ho:CODED-TYPE ho:BASE-DATA-TYPE=\"{}\" CATEGORY=\"STANDARD-LENGTH-TYPE\"><ho:BIT-LENGTH>8</ho:BIT-LENGTH></ho:CODED-TYPE>{}", ind(4), esc(&c.base_type), nl));
            } else {
                out.push_str(&format!("{}<ho:CODED-TYPE ho:BASE-DATA-TYPE=\"{}\" CATEGORY=\"STANDARD-LENGTH-TYPE\"/>{}", ind(4), esc(&c.base_type), nl));
            }
            out.push_str(&format!("{}</fx:CODING>{}", ind(3), nl));
        }
        Elem::Signal(s) => {
            out.push_str(&format!("{}<fx:SIGNAL ID=\"{}\">{}", ind(3), esc(&s.id), nl));
            out.push_str(&format!("{}<ho:SHORT-NAME>{}</ho:SHORT-NAME>{}", ind(4), esc(&s.id), nl));
            if l.foreign_desc {
                out.push_str(&format!("{}<ho:DESC>description of signal {}</ho:DESC>{}", ind(4), esc(&s.id), nl));
            }
            // CODING-REF is only understood as an empty element (grammar of the sample files)
            out.push_str(&format!("{}<fx:CODING-REF ID-REF=\"{}\"/>{}", ind(4), esc(&s.coding_ref), nl));
            out.push_str(&format!("{}</fx:SIGNAL>{}", ind(3), nl));
        }
        Elem::Pdu(p) => {
            out.push_str(&format!("{}<fx:PDU ID=\"{}\">{}", ind(3), esc(&p.id), nl));
            for c in l.pdu_order {
                match c {
                    0 => out.push_str(&format!("{}<ho:SHORT-NAME>{}</ho:SHORT-NAME>{}", ind(4), esc(&p.short_name), nl)),
                    1 => match &p.desc {
                        Desc::Absent => {}
                        Desc::Empty => out.push_str(&format!("{}<ho:DESC></ho:DESC>{}", ind(4), nl)),
                        Desc::EmptyTag => out.push_str(&format!("{}<ho:DESC/>{}", ind(4), nl)),
                        Desc::Text(t) => out.push_str(&format!("{}<ho:DESC>{}</ho:DESC>{}", ind(4), esc(t), nl)),
                    },
                    2 => out.push_str(&format!("{}<fx:BYTE-LENGTH>{}</fx:BYTE-LENGTH>{}", ind(4), p.byte_length, nl)),
                    3 => out.push_str(&format!("{}<fx:PDU-TYPE>OTHER</fx:PDU-TYPE>{}", ind(4), nl)),
                    _ => {
                        if !p.signals.is_empty() {
                            out.push_str(&format!("{}<fx:SIGNAL-INSTANCES>{}", ind(4), nl));
                            for s in &p.signals {
                                out.push_str(&format!("{}<fx:SIGNAL-INSTANCE ID=\"{}\">{}", ind(5), esc(&s.id), nl));
                                let seq = format!("{}<fx:SEQUENCE-NUMBER>{}</fx:SEQUENCE-NUMBER>{}", ind(6), s.seq, nl);
                                let r = if l.refs_open_close { format!("{}<fx:SIGNAL-REF ID-REF=\"{}\"></fx:SIGNAL-REF>{}", ind(6), esc(&s.signal_ref), nl) } else { format!("{}<fx:SIGNAL-REF ID-REF=\"{}\"/>{}", ind(6), esc(&s.signal_ref), nl) };
                                if l.ref_first {
                                    out.push_str(&r);
                                    out.push_str(&seq);
                                } else {
                                    out.push_str(&seq);
                                    out.push_str(&r);
                                }
                                out.push_str(&format!("{}</fx:SIGNAL-INSTANCE>{}", ind(5), nl));
                            }
                            out.push_str(&format!("{}</fx:SIGNAL-INSTANCES>{}", ind(4), nl));
                        }
                    }
                }
            }
            out.push_str(&format!("{}</fx:PDU>{}", ind(3), nl));
        }
        Elem::Frame(f) => {
            out.push_str(&format!("{}<fx:FRAME ID=\"{}\">{}", ind(3), esc(&f.id), nl));
            for c in l.frame_order {
                match c {
                    0 => {
                        out.push_str(&format!("{}<ho:SHORT-NAME>{}</ho:SHORT-NAME>{}", ind(4), esc(&f.short_name), nl));
                        if l.foreign_desc {
                            out.push_str(&format!("{}<ho:DESC>description of frame {}</ho:DESC>{}", ind(4), esc(&f.id), nl));
                        }
                    }
                    1 => out.push_str(&format!("{}<fx:BYTE-LENGTH>{}</fx:BYTE-LENGTH>{}", ind(4), f.byte_length, nl)),
                    2 => out.push_str(&format!("{}<fx:FRAME-TYPE>OTHER</fx:FRAME-TYPE>{}", ind(4), nl)),
                    3 => {
                        if !f.pdus.is_empty() {
                            out.push_str(&format!("{}<fx:PDU-INSTANCES>{}", ind(4), nl));
                            for p in &f.pdus {
                                out.push_str(&format!("{}<fx:PDU-INSTANCE ID=\"{}\">{}", ind(5), esc(&p.id), nl));
                                let seq = format!("{}<fx:SEQUENCE-NUMBER>{}</fx:SEQUENCE-NUMBER>{}", ind(6), p.seq, nl);
                                let r = if l.refs_open_close { format!("{}<fx:PDU-REF ID-REF=\"{}\"></fx:PDU-REF>{}", ind(6), esc(&p.pdu_ref), nl) } else { format!("{}<fx:PDU-REF ID-REF=\"{}\"/>{}", ind(6), esc(&p.pdu_ref), nl) };
                                if l.ref_first {
                                    out.push_str(&r);
                                    out.push_str(&seq);
                                } else {
                                    out.push_str(&seq);
                                    out.push_str(&r);
                                }
                                out.push_str(&format!("{}</fx:PDU-INSTANCE>{}", ind(5), nl));
                            }
                            out.push_str(&format!("{}</fx:PDU-INSTANCES>{}", ind(4), nl));
                        }
                    }
                    _ => {
                        if let Some(m) = &f.manuf {
                            out.push_str(&format!("{}<fx:MANUFACTURER-EXTENSION>{}", ind(4), nl));
                            for k in l.manuf_order {
                                let (tag, v) = match k {
                                    0 => ("MESSAGE_TYPE", &m.message_type),
                                    1 => ("MESSAGE_INFO", &m.message_info),
                                    2 => ("APPLICATION_ID", &m.application_id),
                                    _ => ("CONTEXT_ID", &m.context_id),
                                };
                                if let Some(v) = v {
                                    out.push_str(&format!("{}<{}>{}</{}>{}", ind(5), tag, esc(v), tag, nl));
                                }
                            }
                            if l.noise {
                                out.push_str(&format!("{}<MESSAGE_SOURCE_FILE>/some/path.c</MESSAGE_SOURCE_FILE>{}", ind(5), nl));
                                out.push_str(&format!("{}<MESSAGE_LINE_NUMBER>66</MESSAGE_LINE_NUMBER>{}", ind(5), nl));
                            }
                            out.push_str(&format!("{}</fx:MANUFACTURER-EXTENSION>{}", ind(4), nl));
                        }
                    }
                }
            }
            out.push_str(&format!("{}</fx:FRAME>{}", ind(3), nl));
        }
    }
}

fn section_of(e: &Elem) -> usize {
    match e {
        Elem::Coding(_) => 0,
        Elem::Signal(_) => 1,
        Elem::Pdu(_) => 2,
        Elem::Frame(_) => 3,
    }
}
const SECTION_TAGS: [&str; 4] = ["fx:CODINGS", "fx:SIGNALS", "fx:PDUS", "fx:FRAMES"];

/// Render one document.  Consecutive elements of the same kind share a section element; the
/// element order is exactly the order of `elems`.
pub fn render_doc(elems: &[Elem], l: &Layout) -> String {
    let nl = if l.indent { "\n" } else { "" };
    let mut out = String::new();
    out.push_str("<?xml version=\"1.0\" encoding=\"UTF-8\"?>");
    out.push_str(nl);
    out.push_str("<fx:FIBEX xmlns:ho=\"http://www.asam.net/xml\" xmlns:fx=\"http://www.asam.net/xml/fbx\">");
    out.push_str(nl);
    if l.foreign_desc {
        out.push_str("<fx:PROJECT ID=\"Project\"><ho:SHORT-NAME>ProjectName</ho:SHORT-NAME><ho:DESC>description of the project</ho:DESC></fx:PROJECT>");
    } else {
        out.push_str("<fx:PROJECT ID=\"Project\"><ho:SHORT-NAME>ProjectName</ho:SHORT-NAME></fx:PROJECT>");
    }
    out.push_str(nl);
    let mut processing_information = String::new();
    if l.codings_place != 0 {
        processing_information.push_str("<fx:PROCESSING-INFORMATION>");
        processing_information.push_str(nl);
        processing_information.push_str("<fx:CODINGS>");
        processing_information.push_str(nl);
        for e in elems.iter().filter(|e| matches!(e, Elem::Coding(_))) {
            render_elem(e, l, &mut processing_information);
        }
        processing_information.push_str("</fx:CODINGS>");
        processing_information.push_str(nl);
        processing_information.push_str("</fx:PROCESSING-INFORMATION>");
        processing_information.push_str(nl);
    }
    if l.codings_place == 2 {
        out.push_str(&processing_information);
    }
    out.push_str("<fx:ELEMENTS>");
    out.push_str(nl);
    if l.noise {
        out.push_str("<fx:ECUS><fx:ECU ID=\"ECU1\"><ho:SHORT-NAME>ECU1</ho:SHORT-NAME><fx:MANUFACTURER-EXTENSION><SW_VERSION>unknown</SW_VERSION><APPLICATIONS><APPLICATION><APPLICATION_ID>NOISE</APPLICATION_ID><CONTEXTS><CONTEXT><CONTEXT_ID>NOIS</CONTEXT_ID></CONTEXT></CONTEXTS></APPLICATION></APPLICATIONS></fx:MANUFACTURER-EXTENSION></fx:ECU></fx:ECUS>");
        out.push_str(nl);
        out.push_str("<!-- a comment with <fx:PDU ID=\"X\"> inside -->");
        out.push_str(nl);
    }
    let mut cur: Option<usize> = None;
    for e in elems {
        if l.codings_place != 0 && matches!(e, Elem::Coding(_)) {
            continue;
        }
        let s = section_of(e);
        if cur != Some(s) {
            if let Some(c) = cur {
                out.push_str(&format!("</{}>{}", SECTION_TAGS[c], nl));
            }
            out.push_str(&format!("<{}>{}", SECTION_TAGS[s], nl));
            cur = Some(s);
        }
        render_elem(e, l, &mut out);
        if l.noise {
            out.push_str("<fx:UNKNOWN-THING ID=\"u\"><ho:LONG-NAME>x</ho:LONG-NAME></fx:UNKNOWN-THING>");
            out.push_str(nl);
        }
    }
    if let Some(c) = cur {
        out.push_str(&format!("</{}>{}", SECTION_TAGS[c], nl));
    }
    out.push_str("</fx:ELEMENTS>");
    out.push_str(nl);
    if l.codings_place == 3 {
        out.push_str("<fx:REQUIREMENTS><fx:REQUIREMENT ID=\"R1\"><ho:SHORT-NAME>r1</ho:SHORT-NAME></fx:REQUIREMENT></fx:REQUIREMENTS>");
        out.push_str(nl);
    }
    if l.codings_place == 1 || l.codings_place == 3 {
        out.push_str(&processing_information);
    }
    out.push_str("</fx:FIBEX>");
    out.push_str(nl);
    out
}

// ---------------------------------------------------------------------------------------------
// the expected model (statement of C11, transcribed)
// ---------------------------------------------------------------------------------------------

fn ti(kind: TypeInfoKind, coding: StringCoding) -> TypeInfo {
    TypeInfo { kind, coding, has_variable_info: false, has_trace_info: false }
}
pub fn standard_signal(name: &str) -> Option<Option<TypeInfo>> {
    use TypeLength::*;
    let a = StringCoding::ASCII;
    Some(Some(match name {
        "S_BOOL" => ti(TypeInfoKind::Bool, a),
        "S_SINT8" => ti(TypeInfoKind::Signed(BitLength8), a),
        "S_UINT8" => ti(TypeInfoKind::Unsigned(BitLength8), a),
        "S_SINT16" => ti(TypeInfoKind::Signed(BitLength16), a),
        "S_UINT16" => ti(TypeInfoKind::Unsigned(BitLength16), a),
        "S_SINT32" => ti(TypeInfoKind::Signed(BitLength32), a),
        "S_UINT32" => ti(TypeInfoKind::Unsigned(BitLength32), a),
        "S_SINT64" => ti(TypeInfoKind::Signed(BitLength64), a),
        "S_UINT64" => ti(TypeInfoKind::Unsigned(BitLength64), a),
        "S_FLOA16" => return Some(None), // a standard name, but unsupported: skipped
        "S_FLOA32" => ti(TypeInfoKind::Float(FloatWidth::Width32), a),
        "S_FLOA64" => ti(TypeInfoKind::Float(FloatWidth::Width64), a),
        "S_STRG_ASCII" => ti(TypeInfoKind::StringType, StringCoding::ASCII),
        "S_STRG_UTF8" => ti(TypeInfoKind::StringType, StringCoding::UTF8),
        "S_RAWD" | "S_RAW" => ti(TypeInfoKind::Raw, a),
        _ => return None,
    }))
}
pub fn base_type(name: &str) -> Option<TypeInfo> {
    use TypeLength::*;
    let a = StringCoding::ASCII;
    Some(match name {
        "A_UINT8" => ti(TypeInfoKind::Unsigned(BitLength8), a),
        "A_INT8" | "A_SINT8" => ti(TypeInfoKind::Signed(BitLength8), a),
        "A_UINT16" => ti(TypeInfoKind::Unsigned(BitLength16), a),
        "A_INT16" | "A_SINT16" => ti(TypeInfoKind::Signed(BitLength16), a),
        "A_UINT32" => ti(TypeInfoKind::Unsigned(BitLength32), a),
        "A_INT32" | "A_SINT32" => ti(TypeInfoKind::Signed(BitLength32), a),
        "A_UINT64" => ti(TypeInfoKind::Unsigned(BitLength64), a),
        "A_INT64" | "A_SINT64" => ti(TypeInfoKind::Signed(BitLength64), a),
        "A_FLOAT32" => ti(TypeInfoKind::Float(FloatWidth::Width32), a),
        "A_FLOAT64" => ti(TypeInfoKind::Float(FloatWidth::Width64), a),
        "A_ASCIISTRING" => ti(TypeInfoKind::StringType, StringCoding::ASCII),
        "A_UNICODE2STRING" => ti(TypeInfoKind::StringType, StringCoding::UTF8),
        _ => return None,
    })
}
pub const STANDARD_NAMES: [&str; 16] = ["S_BOOL", "S_SINT8", "S_UINT8", "S_SINT16", "S_UINT16", "S_SINT32", "S_UINT32", "S_SINT64", "S_UINT64", "S_FLOA16", "S_FLOA32", "S_FLOA64", "S_STRG_ASCII", "S_STRG_UTF8", "S_RAWD", "S_RAW"];
pub const BASE_TYPES: [&str; 16] = ["A_UINT8", "A_INT8", "A_SINT8", "A_UINT16", "A_INT16", "A_SINT16", "A_UINT32", "A_INT32", "A_SINT32", "A_UINT64", "A_INT64", "A_SINT64", "A_FLOAT32", "A_FLOAT64", "A_ASCIISTRING", "A_UNICODE2STRING"];

/// Expected result of loading the given files (each a list of top-level elements) in this order.
/// None = loading must fail (a frame references an unknown PDU).
pub fn expected_model(files: &[Vec<Elem>]) -> Option<FibexMetadata> {
    let mut signals: HashMap<String, String> = HashMap::new();
    let mut codings: HashMap<String, String> = HashMap::new();
    for f in files {
        for e in f {
            match e {
                Elem::Signal(s) => {
                    signals.insert(s.id.clone(), s.coding_ref.clone());
                }
                Elem::Coding(c) => {
                    codings.insert(c.id.clone(), c.base_type.clone());
                }
                _ => {}
            }
        }
    }
    let resolve = |r: &str| -> Option<TypeInfo> {
        match standard_signal(r) {
            Some(x) => x,
            None => signals.get(r).and_then(|c| codings.get(c)).and_then(|b| base_type(b)),
        }
    };
    let mut pdus: HashMap<String, PduMetadata> = HashMap::new();
    for f in files {
        for e in f {
            if let Elem::Pdu(p) = e {
                if pdus.contains_key(&p.id) {
                    continue; // first definition wins
                }
                let mut insts = p.signals.clone();
                insts.sort_by_key(|s| s.seq);
                pdus.insert(
                    p.id.clone(),
                    PduMetadata {
                        description: match &p.desc {
                            Desc::Text(t) => Some(t.clone()),
                            _ => None,
                        },
                        signal_types: insts.iter().filter_map(|s| resolve(&s.signal_ref)).collect(),
                    },
                );
            }
        }
    }
    let mut frame_map: HashMap<String, FrameMetadata> = HashMap::new();
    let mut with_key: HashMap<FrameMetadataIdentification, FrameMetadata> = HashMap::new();
    for f in files {
        for e in f {
            if let Elem::Frame(fr) = e {
                let mut insts = fr.pdus.clone();
                insts.sort_by_key(|p| p.seq);
                let mut list = vec![];
                for i in &insts {
                    match pdus.get(&i.pdu_ref) {
                        Some(p) => list.push(p.clone()),
                        None => return None, // reference to an unknown PDU: loading fails
                    }
                }
                let m = fr.manuf.clone().unwrap_or_default();
                let meta = FrameMetadata { short_name: fr.short_name.clone(), pdus: list, application_id: m.application_id.clone(), context_id: m.context_id.clone(), message_type: m.message_type.clone(), message_info: m.message_info.clone() };
                if let (Some(c), Some(a)) = (&m.context_id, &m.application_id) {
                    with_key.entry(FrameMetadataIdentification { context_id: c.clone(), app_id: a.clone(), frame_id: fr.id.clone() }).or_insert_with(|| meta.clone());
                }
                frame_map.entry(fr.id.clone()).or_insert(meta);
            }
        }
    }
    Some(FibexMetadata { frame_map_with_key: with_key, frame_map })
}

// ---------------------------------------------------------------------------------------------
// small builders
// ---------------------------------------------------------------------------------------------

pub fn pdu(id: &str, desc: Desc, refs: &[(&str, usize)]) -> Pdu {
    Pdu { id: id.to_string(), short_name: format!("{}_name", id), desc, byte_length: refs.len() * 4, signals: refs.iter().enumerate().map(|(i, (r, seq))| SigInst { id: format!("{}_SI{}", id, i), seq: *seq, signal_ref: r.to_string() }).collect() }
}
pub fn frame(id: &str, name: &str, refs: &[(&str, usize)], manuf: Option<Manuf>) -> Frame {
    Frame { id: id.to_string(), short_name: name.to_string(), byte_length: 16, pdus: refs.iter().enumerate().map(|(i, (r, seq))| PduInst { id: format!("{}_PI{}", id, i), seq: *seq, pdu_ref: r.to_string() }).collect(), manuf }
}
pub fn manuf(app: Option<&str>, ctx: Option<&str>, mt: Option<&str>, mi: Option<&str>) -> Manuf {
    Manuf { application_id: app.map(String::from), context_id: ctx.map(String::from), message_type: mt.map(String::from), message_info: mi.map(String::from) }
}
