//! C14 -- header-type, message-info and type-info codes decode and re-encode consistently.
//! Complete finite domains: all 256 HTYP bytes, all 256 MSIN bytes; type info: all 2^32 words
//! (thorough) or all 2^18 low-bit patterns x 32 high-bit patterns (quick).
use crate::common::*;
use crate::refmodel::*;
use byteorder::{BigEndian, LittleEndian};
use dlt_core::dlt::*;
use dlt_core::parse::{dlt_message, ParsedMessage};
use serde_json::json;
use std::convert::TryFrom;

/// mode: 0 plain; 1 behind a storage header; 2 behind a storage header, parsed with a filter whose
/// ECU id set holds the header's and the storage header's id; 3 no storage header, same filter
/// contents of the optional header fields (ECU id, session id, timestamp)
const HTYP_FILLS: [([u8; 4], [u8; 4], [u8; 4]); 6] = [
    (*b"ECU1", [1, 2, 3, 4], [5, 6, 7, 8]),
    ([0; 4], [0; 4], [0; 4]),
    ([0xFF; 4], [0xFF; 4], [0xFF; 4]),
    (*b"E\0\0\0", [0, 0, 0, 1], [0x80, 0, 0, 0]),
    (*b"\0CU1", [0x44, 0x4C, 0x54, 0x01], [0x44, 0x4C, 0x53, 0x01]),
    ([0xC3, 0xA9, b'1', 0], [0x7F, 0xFF, 0xFF, 0xFF], [0xFF, 0xFF, 0xFF, 0xFE]),
];

fn judge_htyp(htyp: u8, mode: usize, fill: usize, loc: &mut Local) {
    loc.evals += 1;
    loc.traces += 1;
    loc.state(htyp as u64 | (mode as u64) << 8 | (fill as u64) << 12, true);
    let (f_ecu, f_sid, f_ts) = HTYP_FILLS[fill];
    let ecu_text = clean_field(&f_ecu);
    // message with exactly the header fields HTYP announces and an 8-byte payload
    let mut b = vec![htyp, 7, 0, 0];
    if htyp & 0x04 != 0 {
        b.extend_from_slice(&f_ecu);
    }
    if htyp & 0x08 != 0 {
        b.extend_from_slice(&f_sid);
    }
    if htyp & 0x10 != 0 {
        b.extend_from_slice(&f_ts);
    }
    if htyp & 0x01 != 0 {
        b.extend_from_slice(&[0x40, 0, b'A', b'P', b'P', 0, b'C', b'T', b'X', 0]);
    }
    b.extend_from_slice(&[9, 0, 0, 0, 1, 2, 3, 4]);
    let n = b.len();
    b[3] = n as u8;
    let storage = mode == 1 || mode == 2;
    if storage {
        let mut x = b"DLT\x01\x01\x02\x03\x04\x05\x06\x07\x00STOR".to_vec();
        x.extend_from_slice(&b);
        b = x;
    }
    let filter = if mode >= 2 {
        Some(crate::common::PF { min_log_level: None, app_ids: None, ecu_ids: Some([ecu_text.as_str(), "STOR"].iter().map(|s| s.to_string()).collect()), context_ids: None, app_id_count: 0, context_id_count: 0 }.build())
    } else {
        None
    };
    let details = || json!({"htyp": htyp, "mode": mode, "fill": fill, "input_hex": hex(&b)});
    loc.transitions += 1;
    match catch(|| dlt_message(&b, filter.as_ref(), storage).map(|(rest, pm)| (rest.len(), pm))) {
        Ok(Ok((0, ParsedMessage::Item(m)))) => {
            let h = &m.header;
            let expect = (htyp >> 5, htyp & 0x02 != 0, htyp & 0x01 != 0, htyp & 0x04 != 0, htyp & 0x08 != 0, htyp & 0x10 != 0);
            let got = (h.version, h.endianness == Endianness::Big, h.has_extended_header, h.ecu_id.is_some(), h.session_id.is_some(), h.timestamp.is_some());
            if got != expect || m.extended_header.is_some() != (htyp & 1 != 0) {
                loc.violation("HTYP decodes to wrong version/flags", format!("HTYP {:#04x} decoded to (version, big endian, UEH, WEID, WSID, WTMS) = {:?}, bit layout says {:?}", htyp, got, expect), details());
                return;
            }
            let (x_sid, x_ts) = (u32::from_be_bytes(f_sid), u32::from_be_bytes(f_ts));
            if h.ecu_id.as_deref().unwrap_or(&ecu_text) != ecu_text || h.session_id.unwrap_or(x_sid) != x_sid || h.timestamp.unwrap_or(x_ts) != x_ts {
                loc.violation("HTYP optional fields read from wrong position", format!("HTYP {:#04x}: ecu {:?} session {:?} timestamp {:?}", htyp, h.ecu_id, h.session_id, h.timestamp), details());
                return;
            }
            loc.transitions += 2;
            let re = catch(|| (h.header_type_byte(), m.as_bytes()));
            // an ECU id field that is not in canonical form (text, NUL padding) is re-written canonically
            let mut canon = b.clone();
            if htyp & 0x04 != 0 {
                let at = if storage { 20 } else { 4 };
                let mut c = [0u8; 4];
                c[..ecu_text.len()].copy_from_slice(ecu_text.as_bytes());
                canon[at..at + 4].copy_from_slice(&c);
            }
            match re {
                Ok((byte, ser)) if byte == htyp && ser == canon => {
                    loc.outcome("htyp round trip");
                    loc.sample(|| json!({"htyp": htyp, "message": hex(&b)}));
                }
                Ok((byte, ser)) => loc.violation("HTYP does not re-encode to the same byte", format!("HTYP {:#04x} re-encodes as {:#04x}; message re-serialises as {} (was {})", htyp, byte, hex(&ser), hex(&b)), details()),
                Err(p) => loc.violation("HTYP re-encoding panics", format!("re-encoding HTYP {:#04x} panicked: {}", htyp, p), details()),
            }
        }
        other => loc.violation("message with this HTYP does not parse", format!("well-formed message with HTYP {:#04x} gives {:?}; bytes {}", htyp, other.map(|r| r.map(|x| x.0)), hex(&b)), details()),
    }
}

/// contents of the extended header's other fields: (NOAR for a verbose message, APID, CTID)
const MSIN_FILLS: [([u8; 4], [u8; 4]); 5] = [(*b"APP\0", *b"CTX\0"), ([0; 4], [0; 4]), (*b"APPL", *b"CTXT"), ([0xFF; 4], [0xC3, 0x28, 0, 0]), (*b"DLT\x01", *b"DLS\x01")];

fn judge_msin(msin: u8, fill: usize, loc: &mut Local) {
    loc.evals += 1;
    loc.traces += 1;
    loc.state(0x100 | msin as u64 | (fill as u64) << 12, true);
    let details = || json!({"msin": msin, "fill": fill});
    let (f_app, f_ctx) = MSIN_FILLS[fill];
    let (app_text, ctx_text) = (clean_field(&f_app), clean_field(&f_ctx));
    let (mstp, mtin) = ((msin >> 1) & 7, msin >> 4);
    let expect = message_type_of(mstp, mtin);
    loc.transitions += 2;
    match catch(|| MessageType::try_from(msin).map(|mt| (u8::from(&mt), mt))) {
        Err(p) => loc.violation("MessageType::try_from panics", format!("MessageType::try_from({:#04x}) panicked: {}", msin, p), details()),
        Ok(Err(e)) => loc.violation("MessageType::try_from refuses a byte", format!("MessageType::try_from({:#04x}) = Err({})", msin, e), details()),
        Ok(Ok((back, mt))) => {
            if mt != expect {
                loc.violation("MSIN decodes to wrong type/sub-type", format!("MSIN {:#04x} (type {}, sub-type {}) decoded to {:?}, bit layout prescribes {:?}", msin, mstp, mtin, mt, expect), details());
            } else if back != (msin & 0xFE) {
                loc.violation("MSIN does not re-encode to the same byte", format!("MSIN {:#04x} decoded to {:?} re-encodes as {:#04x} (expected {:#04x}: the verbose bit is kept separately)", msin, mt, back, msin & 0xFE), details());
            } else {
                loc.outcome("msin type round trip");
            }
        }
    }
    // through an extended header of a real message (verbose bit included)
    let verbose = msin & 1 != 0;
    let mut b = vec![0x21, 0, 0, 0, msin, 0];
    b.extend_from_slice(&f_app);
    b.extend_from_slice(&f_ctx);
    if !verbose {
        b.extend_from_slice(&[9, 0, 0, 0]);
    }
    let n = b.len();
    b[3] = n as u8;
    loc.transitions += 2;
    match catch(|| dlt_message(&b, None, false).map(|(rest, pm)| (rest.len(), pm))) {
        Ok(Ok((0, ParsedMessage::Item(m)))) => {
            let e = match m.extended_header.as_ref() {
                Some(e) => e,
                None => {
                    loc.violation("MSIN in a message decodes wrongly", format!("message with MSIN {:#04x} (HTYP 0x21: extended header announced) is returned without an extended header; bytes {}", msin, hex(&b)), details());
                    return;
                }
            };
            if e.message_type != expect || e.verbose != verbose || e.application_id != app_text || e.context_id != ctx_text || e.argument_count != 0 {
                loc.violation("MSIN in a message decodes wrongly", format!("MSIN {:#04x} in a message decoded to {:?} verbose={} noar={} app={:?} ctx={:?}, expected {:?} verbose={} noar=0 app={:?} ctx={:?}", msin, e.message_type, e.verbose, e.argument_count, e.application_id, e.context_id, expect, verbose, app_text, ctx_text), details());
                return;
            }
            // ids that are not in canonical form (text, NUL padding) are re-written canonically
            let mut canon = b.clone();
            for (at, t) in [(6usize, &app_text), (10usize, &ctx_text)] {
                let mut c = [0u8; 4];
                c[..t.len()].copy_from_slice(t.as_bytes());
                canon[at..at + 4].copy_from_slice(&c);
            }
            match catch(|| (e.as_bytes(), m.as_bytes())) {
                Ok((eb, ser)) if eb[0] == msin && ser == canon => {
                    loc.outcome("msin message round trip");
                    loc.sample(|| json!({"msin": msin, "decoded": format!("{:?} verbose={}", e.message_type, e.verbose)}));
                }
                Ok((eb, ser)) => loc.violation("MSIN in a message does not re-encode", format!("MSIN {:#04x} re-encodes as {:#04x}; message {} -> {}", msin, eb[0], hex(&b), hex(&ser)), details()),
                Err(p) => loc.violation("MSIN re-encoding panics", format!("re-encoding a message with MSIN {:#04x} panicked: {}", msin, p), details()),
            }
        }
        other => loc.violation("message with this MSIN does not parse", format!("message with MSIN {:#04x} gives {:?}; bytes {}", msin, other.map(|r| r.map(|x| x.0)), hex(&b)), details()),
    }
}

/// mask of the bits the format leaves unused for a decoded kind (may differ after re-encoding)
fn unused_mask(kind: RefKind) -> u32 {
    let mut m: u32 = 0xFFFC_0000 | TI_STRU;
    match kind {
        RefKind::Bool | RefKind::Str | RefKind::Raw => m |= 0xF | TI_FIXP,
        RefKind::Float(_) => m |= TI_FIXP,
        _ => {}
    }
    m
}

#[inline]
fn judge_type_info(w: u32, loc: &mut Local, count_state: bool) {
    loc.evals += 1;
    loc.transitions += 1;
    loc.traces += 1;
    let expect = decode_type_info(w);
    if count_state {
        loc.state(w as u64, expect.is_some());
    }
    let got = match catch(|| TypeInfo::try_from(w)) {
        Ok(g) => g,
        Err(p) => {
            loc.violation("TypeInfo::try_from panics", format!("TypeInfo::try_from({:#010x}) panicked: {}", w, p), json!({"word": w}));
            return;
        }
    };
    match (got, expect) {
        (Err(_), None) => {
            if w & 0x3FF == 0x3FF {
                loc.outcome_n("refused", 1);
            }
        }
        (Ok(ti), None) => {
            loc.violation("type info accepted although it names no single supported kind/width", format!("TypeInfo::try_from({:#010x}) = {:?}, but the word does not name exactly one supported kind with a supported width", w, ti), json!({"word": w}));
        }
        (Err(e), Some(k)) => {
            loc.violation("type info refused although it names one supported kind/width", format!("TypeInfo::try_from({:#010x}) = Err({}) but the word names {:?}", w, e, k), json!({"word": w}));
        }
        (Ok(ti), Some((kind, vari, trai, scod))) => {
            let expect_ti = TypeInfo { kind: kind_to_crate(kind), coding: coding_to_crate(scod), has_variable_info: vari, has_trace_info: trai };
            if ti != expect_ti {
                loc.violation("type info decodes to a wrong description", format!("TypeInfo::try_from({:#010x}) = {:?}, bit layout prescribes {:?}", w, ti, expect_ti), json!({"word": w}));
                return;
            }
            loc.transitions += 2;
            let (be, le) = match catch(|| (ti.as_bytes::<BigEndian>(), ti.as_bytes::<LittleEndian>())) {
                Ok(x) => x,
                Err(p) => {
                    loc.violation("TypeInfo::as_bytes panics", format!("re-encoding the description of {:#010x} panicked: {}", w, p), json!({"word": w}));
                    return;
                }
            };
            let re = u32::from_be_bytes([be[0], be[1], be[2], be[3]]);
            let rev: Vec<u8> = le.iter().rev().cloned().collect();
            if rev != be {
                loc.violation("type info encodings are not byte reversals of each other", format!("TypeInfo {:?}: BE {} LE {}", ti, hex(&be), hex(&le)), json!({"word": w}));
            } else if (re ^ w) & !unused_mask(kind) != 0 {
                loc.violation("re-encoded type info differs in used bits", format!("TypeInfo::try_from({:#010x}) re-encodes as {:#010x}: differs in bits {:#010x} which are not unused for {:?}", w, re, (re ^ w) & !unused_mask(kind), kind), json!({"word": w}));
            } else {
                match catch(|| TypeInfo::try_from(re)).unwrap_or_else(|p| Err(dlt_core::dlt::Error::InvalidData(format!("PANIC {}", p)))) {
                    Ok(ti2) if ti2 == ti => {
                        if w & 0x3FF == 0x3FF || w < 0x800 {
                            loc.outcome_n("accepted, stable", 1);
                        }
                    }
                    other => loc.violation("re-encoded type info decodes differently", format!("word {:#010x} -> {:?} -> {:#010x} -> {:?}", w, ti, re, other.map_err(|e| e.to_string())), json!({"word": w})),
                }
            }
        }
    }
}

pub fn run(ctx: &Ctx) {
    ctx.enable_trace_pass(ctx.tier.pick(20000u64, 200000u64));
    ctx.set_rule("case = one code value; HTYP and MSIN: all 256 bytes each, through the conversion functions and through a real message; type info: every word of the stated domain, compared with an independent decoder of the bit layout (exactly one of BOOL/SINT/UINT/FLOA/STRG/RAWD among bits 4..10, supported TYLE) and re-encoded in both byte orders; non-trivial = the word is accepted");
    ctx.run_family(Family::new("c14.htyp", 256 * 4 * HTYP_FILLS.len() as u64, "all 256 HTYP bytes, each in a message with exactly the header fields it announces x {plain, behind a storage header, behind a storage header and parsed with an ECU-id filter that admits it, no storage header with that filter} x 6 contents of the optional fields {ECU1/ordinary numbers, all zero (empty ECU id), all 0xFF (not UTF-8), short id + extreme numbers, id starting with NUL + numbers spelling the storage / serial patterns, 2-byte character id}", |i, loc| judge_htyp(i as u8, ((i >> 8) & 3) as usize, (i >> 10) as usize, loc)));
    // whatever LEN says: a returned message carries exactly the flags of its HTYP byte
    ctx.run_family(Family::new("c14.htyp_any_len", 256 * 48 * 2, "all 256 HTYP bytes x EVERY declared length 0..=47 (shorter than, equal to and longer than the headers the byte announces) x {no storage header, storage header} over a 64-byte body: the parser may refuse, but a message it returns has version and flags as the bit layout prescribes and re-encodes to the same byte", |i, loc| {
        let htyp = (i & 0xFF) as u8;
        let len = ((i >> 8) % 48) as u8;
        let storage = (i >> 8) / 48 == 1;
        let mut b: Vec<u8> = vec![];
        if storage {
            b.extend_from_slice(b"DLT\x01\x01\x02\x03\x04\x05\x06\x07\x00STOR");
        }
        b.extend_from_slice(&[htyp, 9, 0, len]);
        b.extend((0..64u8).map(|k| if k % 5 == 4 { 0 } else { 0x41 + k % 7 }));
        loc.evals += 1;
        loc.traces += 1;
        loc.transitions += 1;
        loc.state(i + 0x5000_0000, true);
        let details = || json!({"htyp": htyp, "len": len, "storage": storage, "input_hex": hex(&b)});
        match catch(|| dlt_message(&b, None, storage).map(|(rest, pm)| (rest.len(), pm))) {
            Err(p) => loc.violation("dlt_message panics", format!("HTYP {:#04x} LEN {}: panicked: {}", htyp, len, p), details()),
            Ok(Ok((_, ParsedMessage::Item(m)))) => {
                let h = &m.header;
                let expect = (htyp >> 5, htyp & 0x02 != 0, htyp & 0x01 != 0, htyp & 0x04 != 0, htyp & 0x08 != 0, htyp & 0x10 != 0);
                let got = (h.version, h.endianness == Endianness::Big, h.has_extended_header, h.ecu_id.is_some(), h.session_id.is_some(), h.timestamp.is_some());
                let byte = catch(|| h.header_type_byte());
                if got != expect || m.extended_header.is_some() != (htyp & 1 != 0) || byte != Ok(htyp) {
                    loc.violation("returned message does not carry the flags of its HTYP byte", format!("HTYP {:#04x} with declared length {} decoded to (version, big endian, UEH, WEID, WSID, WTMS) = {:?} (extended header present: {}), bit layout says {:?}; re-encoded byte {:?}", htyp, len, got, m.extended_header.is_some(), expect, byte), details());
                } else {
                    loc.outcome("message with the flags of its HTYP");
                }
            }
            Ok(_) => loc.outcome("refused / incomplete / no item"),
        }
    }));
    ctx.run_family(Family::new("c14.msin", 256 * MSIN_FILLS.len() as u64, "all 256 MSIN bytes through MessageType::try_from / u8::from and through the extended header of a message x 5 contents of the application / context id fields {3 letters, empty, 4 letters, not UTF-8, spelling the storage / serial patterns}", |i, loc| judge_msin(i as u8, (i >> 8) as usize, loc)));
    // history: decoding a word must not depend on the words decoded before (memo tables, negative
    // caches): for ALL ordered pairs (x, y) of patterns of bits 0..12, decode x, then judge y twice
    {
        let n: u64 = 1 << 13;
        ctx.run_family(Family::new("c14.type_info.history", n * n, "ALL ordered pairs (x, y) over the 8192 patterns of bits 0..12 (TYLE, every kind flag, VARI, FIXP): TypeInfo::try_from(x), then y judged twice on the same thread", move |i, loc| {
            let (x, y) = ((i / n) as u32, (i % n) as u32);
            let _ = catch(|| TypeInfo::try_from(x));
            judge_type_info(y, loc, false);
            judge_type_info(y, loc, false);
        }).distinct());
        // the same through the message parser (parse.rs decodes type-info words on its own path)
        let words: Vec<u32> = (0..2048u32).map(|k| (k & 7) | ((k >> 3) & 0x7F) << 4 | ((k >> 10) & 1) << 12).collect();
        let mk = |w: u32, big: bool| -> Vec<u8> {
            let mut b = vec![if big { 0x23 } else { 0x21 }, 0x00, 0x00, 0x00, 0x41, 0x01, b'A', b'P', b'P', 0, b'C', b'T', b'X', 0];
            b.extend_from_slice(&if big { w.to_be_bytes() } else { w.to_le_bytes() });
            // data: a length prefix of 2 ("a\0" / two raw bytes) that is also a small number, then enough bytes for any width / fixed-point data
            b.extend_from_slice(&if big { [0x00, 0x02] } else { [0x02, 0x00] });
            b.extend_from_slice(b"a\0");
            b.extend((0..40u8).map(|k| k / 3));
            let l = b.len();
            b[2] = (l >> 8) as u8;
            b[3] = l as u8;
            b
        };
        let msgs: Vec<Vec<u8>> = words.iter().flat_map(|w| [mk(*w, false), mk(*w, true)]).collect();
        let m = msgs.len() as u64;
        let msgs = &msgs;
        ctx.run_family(Family::new("c14.type_info.parser_history", m * m, format!("ALL ordered pairs (a, b) over {} one-argument messages (every TYLE 0..7 x every pattern of the kind bits 4..10 x FIXP, both byte orders): parse a, then b twice; both verdicts on b must equal the reference decoder's", m), move |i, loc| {
            let (a, b) = (&msgs[(i / m) as usize], &msgs[(i % m) as usize]);
            let _ = catch(|| dlt_core::parse::dlt_message(a, None, false).map(|_| ()));
            crate::p02_refcodec::judge_decode(b, false, loc);
            crate::p02_refcodec::judge_decode(b, false, loc);
        }).distinct());
    }
    // type-info words with unused bits set, inside messages of every protocol version
    {
        let highs: [u32; 5] = [0, 1 << 14, 1 << 18, 1 << 31, 0xFFFC_4000];
        let sp = Space::new(&[2048, highs.len(), 8, 2]);
        let s2 = sp.clone();
        ctx.run_family(Family::new("c14.type_info.versions", sp.size(), "one-argument messages: every TYLE x every pattern of the kind bits x FIXP (2048 words) x unused bits {none, STRU, bit 18, bit 31, all} x ALL 8 header versions x byte order, through the parser against the reference decoder", move |i, loc| {
            let c = s2.coords(i);
            let k = c[0] as u32;
            let w = ((k & 7) | ((k >> 3) & 0x7F) << 4 | ((k >> 10) & 1) << 12) | highs[c[1]];
            let big = c[3] == 1;
            let mut b = vec![((c[2] as u8) << 5) | if big { 0x03 } else { 0x01 }, 0x00, 0x00, 0x00, 0x41, 0x01, b'A', b'P', b'P', 0, b'C', b'T', b'X', 0];
            b.extend_from_slice(&if big { w.to_be_bytes() } else { w.to_le_bytes() });
            b.extend_from_slice(&if big { [0x00, 0x02] } else { [0x02, 0x00] });
            b.extend_from_slice(b"a\0");
            b.extend((0..40u8).map(|k| k / 3));
            let l = b.len();
            b[3] = l as u8;
            crate::p02_refcodec::judge_decode(&b, false, loc);
        }));
    }
    match ctx.tier {
        Tier::Quick => {
            let highs: Vec<u32> = {
                let mut v = vec![0u32, 0x3FFF];
                for b in 0..14 {
                    v.push(1 << b);
                }
                for b in 0..14 {
                    v.push(0x3FFF ^ (1 << b));
                }
                v.push(0x1555);
                v.push(0x2AAA);
                v
            };
            let n = highs.len() as u64;
            ctx.put("type_info_domain", json!(format!("all 2^18 low-bit patterns x {} patterns of the 14 reserved high bits (none, all, each single bit, all but one, alternating)", n)));
            let highs = &highs;
            ctx.run_family(Family::new("c14.type_info", (1u64 << 18) * n, format!("all 2^18 patterns of bits 0..17 x {} patterns of reserved bits 18..31", n), move |i, loc| {
                let w = (i & 0x3FFFF) as u32 | (highs[(i >> 18) as usize] << 18);
                judge_type_info(w, loc, true);
            }));
        }
        Tier::Thorough => {
            ctx.put("type_info_domain", json!("all 2^32 words"));
            ctx.exhaustive.store(true, std::sync::atomic::Ordering::Relaxed);
            ctx.run_family(
                Family::new("c14.type_info", 1u64 << 32, "ALL 2^32 type-info words", move |i, loc| {
                    judge_type_info(i as u32, loc, false);
                })
                .chunk(1 << 20)
                .distinct(),
            );
        }
    }
}
