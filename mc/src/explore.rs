//! Choice-sequence explorer (stateless DFS with deviation bounding) and the scripted sources that
//! own every environment answer given to the readers: how many bytes a `read` / `poll_read`
//! returns, `ErrorKind::Interrupted`, `Poll::Pending`.
//!
//! A *choice point* offers a menu; option 0 is the default answer ("deliver everything that is
//! asked for and available"), any other option is a *deviation*.  `run` replays a prefix of
//! choices (an out-of-range choice is a machinery error) and takes option 0 afterwards;
//! `explore` enumerates every choice sequence with at most `bound` deviations.

use std::cell::RefCell;
use std::io::{ErrorKind, Read};
use std::pin::Pin;
use std::rc::Rc;
use std::task::{Context, Poll};

#[derive(Default, Debug)]
pub struct Chooser {
    pub prefix: Vec<u32>,
    /// (choice taken, number of options, bytes delivered so far, messages emitted so far)
    pub trace: Vec<(u32, u32, u32, u32)>,
    pub delivered: u32,
    pub emitted: u32,
    pub interrupts: u32,
    pub pendings: u32,
    pub short_reads: u32,
    /// fragment boundaries produced (offsets in the stream where one read result ended)
    pub boundaries: Vec<u32>,
}
impl Chooser {
    pub fn choose(&mut self, options: u32) -> u32 {
        let i = self.trace.len();
        let c = if i < self.prefix.len() { self.prefix[i] } else { 0 };
        if c >= options {
            panic!("explorer divergence: replayed choice {} at point {} but only {} options are offered now (trace {:?})", c, i, options, self.trace);
        }
        self.trace.push((c, options, self.delivered, self.emitted));
        c
    }
}
pub type Shared = Rc<RefCell<Chooser>>;

/// Menu of a read of up to `max` (>= 1) bytes.  `menu` lists the deviating sizes offered
/// (all of 1..max-1 for small streams, a boundary set for large ones).
fn sizes_menu(max: usize, full_menu_limit: usize) -> Vec<usize> {
    if max <= 1 {
        return vec![];
    }
    if max <= full_menu_limit {
        (1..max).collect()
    } else {
        let mut v: Vec<usize> = vec![1, 2, 3, 4, 5, 15, 16, 17, 19, 20, 21, 22, 255, 256, 4095, 4096, 65_534, 65_535, 65_536];
        for d in 1..=5 {
            v.push(max - d);
        }
        v.push(max / 2);
        v.retain(|k| *k >= 1 && *k < max);
        v.sort_unstable();
        v.dedup();
        v
    }
}

pub struct ScriptedRead {
    pub data: Rc<Vec<u8>>,
    pub off: usize,
    pub ch: Shared,
    pub full_menu_limit: usize,
    /// when set: a fixed list of chunk sizes to deliver (composition mode, no choice points);
    /// entries of 0 mean "Interrupted"
    pub fixed: Option<Vec<u32>>,
    pub fixed_pos: usize,
}
impl ScriptedRead {
    fn next_answer(&mut self, want: usize) -> Answer {
        let rest = self.data.len() - self.off;
        if rest == 0 || want == 0 {
            return Answer::Bytes(0);
        }
        let max = want.min(rest);
        if let Some(f) = &self.fixed {
            if self.fixed_pos < f.len() {
                let k = f[self.fixed_pos] as usize;
                self.fixed_pos += 1;
                if k == 0 {
                    return Answer::Interrupt;
                }
                return Answer::Bytes(k.min(max));
            }
            return Answer::Bytes(max);
        }
        let menu = sizes_menu(max, self.full_menu_limit);
        // options: 0 = max bytes, 1..=menu.len() = menu sizes, last = interrupt / pending
        let c = self.ch.borrow_mut().choose(menu.len() as u32 + 2);
        if c == 0 {
            Answer::Bytes(max)
        } else if (c as usize) <= menu.len() {
            Answer::Bytes(menu[c as usize - 1])
        } else {
            Answer::Interrupt
        }
    }
    fn deliver(&mut self, buf: &mut [u8], k: usize, short: bool) {
        buf[..k].copy_from_slice(&self.data[self.off..self.off + k]);
        self.off += k;
        let mut ch = self.ch.borrow_mut();
        ch.delivered = self.off as u32;
        if k > 0 {
            ch.boundaries.push(self.off as u32);
        }
        if short {
            ch.short_reads += 1;
        }
    }
}
enum Answer {
    Bytes(usize),
    Interrupt,
}
impl Read for ScriptedRead {
    fn read(&mut self, buf: &mut [u8]) -> std::io::Result<usize> {
        let rest = self.data.len() - self.off;
        match self.next_answer(buf.len()) {
            Answer::Bytes(k) => {
                let short = k < buf.len().min(rest);
                self.deliver(buf, k, short);
                Ok(k)
            }
            Answer::Interrupt => {
                self.ch.borrow_mut().interrupts += 1;
                Err(std::io::Error::new(ErrorKind::Interrupted, "scripted interrupt"))
            }
        }
    }
}
impl futures::io::AsyncRead for ScriptedRead {
    fn poll_read(mut self: Pin<&mut Self>, cx: &mut Context<'_>, buf: &mut [u8]) -> Poll<std::io::Result<usize>> {
        let rest = self.data.len() - self.off;
        match self.next_answer(buf.len()) {
            Answer::Bytes(k) => {
                let short = k < buf.len().min(rest);
                self.deliver(buf, k, short);
                Poll::Ready(Ok(k))
            }
            Answer::Interrupt => {
                // in the async world the non-default answer is "not ready yet"
                self.ch.borrow_mut().pendings += 1;
                cx.waker().wake_by_ref();
                Poll::Pending
            }
        }
    }
}

pub struct Execution<O> {
    pub choices: Vec<u32>,
    pub options: Vec<u32>,
    pub observation: O,
    pub chooser: Chooser,
}

/// Enumerate every choice sequence with at most `bound` deviations.  `run(prefix)` executes the
/// body once and returns the chooser (with its trace) and the observation; `visit` judges it.
/// Returns the number of executions.
pub fn explore<O>(bound: u32, max_executions: u64, run: &mut dyn FnMut(&[u32]) -> (Chooser, O), visit: &mut dyn FnMut(&Execution<O>, u32)) -> (u64, bool) {
    let mut count = 0u64;
    let mut capped = false;
    // explicit stack of (prefix, deviations used)
    let mut stack: Vec<(Vec<u32>, u32)> = vec![(vec![], 0)];
    while let Some((prefix, devs)) = stack.pop() {
        if count >= max_executions {
            capped = true;
            break;
        }
        let (ch, obs) = run(&prefix);
        count += 1;
        // replay check: the prefix must have been followed exactly
        for (i, c) in prefix.iter().enumerate() {
            if i >= ch.trace.len() || ch.trace[i].0 != *c {
                panic!("explorer divergence: prefix {:?} was not replayed (trace {:?})", prefix, ch.trace);
            }
        }
        let choices: Vec<u32> = ch.trace.iter().map(|t| t.0).collect();
        let options: Vec<u32> = ch.trace.iter().map(|t| t.1).collect();
        let ex = Execution { choices, options, observation: obs, chooser: ch };
        visit(&ex, devs);
        if devs < bound {
            for i in prefix.len()..ex.choices.len() {
                for alt in 1..ex.options[i] {
                    let mut p = ex.choices[..i].to_vec();
                    p.push(alt);
                    stack.push((p, devs + 1));
                }
            }
        }
    }
    (count, capped)
}

/// all compositions of n (as lists of chunk sizes), index-addressable: bit i of `mask` set means
/// "cut after byte i+1"
pub fn composition(n: usize, mask: u64) -> Vec<u32> {
    let mut v = vec![];
    let mut run = 0u32;
    for i in 0..n {
        run += 1;
        if i + 1 == n || mask & (1 << i) != 0 {
            v.push(run);
            run = 0;
        }
    }
    v
}
