//! C10 -- statistics count every message once per id and merge like a sum.
//! Streams: all sequences up to a length over header alphabets; per stream: a recording
//! collector, the standard collector against an independent tally, and -- for every composition
//! of the stream into contiguous parts -- an explicit-state breadth-first search over ALL merge
//! histories of the per-part results (transition: parts[i].merge(parts[j]) for every ordered
//! pair, and merging with/into StatisticInfo::new()).  States hold the real values (vector order
//! included, so order-dependent merge bugs stay visible) and are deduplicated by their exact
//! representation; the invariant "canonical sum of the parts == statistics of the whole stream,
//! no duplicate ids" is evaluated in every state.
use crate::common::*;
use crate::refmodel::*;
use crate::universe::*;
use dlt_core::dlt::{ExtendedHeader, LogLevel, StandardHeader, StorageHeader};
use dlt_core::parse::DltParseError;
use dlt_core::read::DltMessageReader;
use dlt_core::statistics::common::{LevelDistribution, StatisticInfo, StatisticInfoCollector};
use dlt_core::statistics::{collect_statistics, Statistic, StatisticCollector};
use serde_json::json;
use std::collections::{BTreeMap, HashSet, VecDeque};

#[derive(Clone, Debug)]
struct Sym {
    ecu: Option<&'static str>,
    /// (mstp, mtin, verbose, app, ctx)
    ext: Option<(u8, u8, bool, &'static str, &'static str)>,
    /// 0: ordinary message.  k in 1..=4 (only without extended header): a message without
    /// timestamp whose payload has k-1 bytes - shorter than a message id, down to the bare
    /// 4-byte standard header; the collector sees headers only, so these are messages to it
    short: u8,
}

fn types12() -> Vec<(u8, u8)> {
    vec![(0, 1), (0, 2), (0, 3), (0, 4), (0, 5), (0, 6), (0, 0), (0, 9), (MSTP_APP_TRACE, 1), (MSTP_NW_TRACE, 2), (MSTP_CONTROL, 1), (5, 3)]
}
fn full_alphabet() -> Vec<Sym> {
    let mut v = vec![];
    for ecu in [None, Some("E1"), Some("E2"), Some(""), Some(" ")] {
        v.push(Sym { ecu, ext: None, short: 0 });
        v.push(Sym { ecu, ext: None, short: 1 });
        v.push(Sym { ecu, ext: None, short: 3 });
        for app in ["A1", "A2"] {
            for ctx in ["C1", "C2"] {
                for (t, s) in types12() {
                    for verbose in [false, true] {
                        v.push(Sym { ecu, ext: Some((t, s, verbose, app, ctx)), short: 0 });
                    }
                }
            }
        }
    }
    v
}
/// collision-forcing subset: same ids with different buckets, app id == ctx id text, NONE vs "NONE"
fn subset12() -> Vec<Sym> {
    vec![
        Sym { ecu: None, ext: None, short: 0 },
        Sym { ecu: Some("E1"), ext: None, short: 0 },
        Sym { ecu: Some("NONE"), ext: Some((0, 4, true, "A1", "C1")), short: 0 },
        Sym { ecu: None, ext: Some((0, 4, true, "A1", "C1")), short: 0 },
        Sym { ecu: Some("E1"), ext: Some((0, 1, true, "A1", "C1")), short: 0 },
        Sym { ecu: Some("E1"), ext: Some((0, 0, true, "A1", "C2")), short: 0 },
        Sym { ecu: Some("E2"), ext: Some((0, 9, false, "A2", "C1")), short: 0 },
        Sym { ecu: Some("E1"), ext: Some((MSTP_CONTROL, 1, false, "A1", "A1")), short: 0 },
        Sym { ecu: Some("E2"), ext: Some((MSTP_NW_TRACE, 2, true, "C1", "A1")), short: 0 },
        Sym { ecu: Some("E1"), ext: Some((0, 6, false, "A2", "C2")), short: 0 },
        Sym { ecu: Some("E2"), ext: Some((5, 3, true, "A1", "C1")), short: 0 },
        Sym { ecu: Some("E1"), ext: Some((0, 3, true, "", "")), short: 0 },
        Sym { ecu: None, ext: None, short: 1 },
        Sym { ecu: Some("E1"), ext: None, short: 4 },
        // an ECU id field that is present but empty / blank is an id like any other, not "no ECU id"
        Sym { ecu: Some(""), ext: Some((0, 4, true, "A1", "C1")), short: 0 },
        Sym { ecu: Some("    "), ext: None, short: 0 },
    ]
}
fn subset4() -> Vec<Sym> {
    vec![
        Sym { ecu: Some("E1"), ext: Some((0, 4, true, "A1", "C1")), short: 0 },
        Sym { ecu: Some("E1"), ext: Some((0, 2, true, "A2", "C1")), short: 0 },
        Sym { ecu: None, ext: None, short: 0 },
        Sym { ecu: Some("E2"), ext: Some((MSTP_APP_TRACE, 1, false, "A1", "C2")), short: 0 },
    ]
}

fn build(sym: &Sym, storage: bool, counter: u8) -> RefMsg {
    let flags = if sym.ecu.is_some() { 0x04 } else { 0 } | if sym.short > 0 { 0 } else { 0x10 };
    let e = sym.ext.map(|(t, s, _, a, c)| ext(t, s, a, c));
    let verbose = sym.ext.map(|x| x.2).unwrap_or(false);
    let p = if sym.short > 0 { RefPayload::NonVerbose(0x0403_0201, vec![]) } else { payload_for(verbose, e.as_ref().map(|e| e.mstp), counter as usize) };
    let mut m = msg_with(flags, 1, e, p, if storage { Some(storage_hdr(counter)) } else { None });
    m.ecu = sym.ecu.map(|s| s.to_string());
    m.mcnt = counter;
    m
}
/// a `short` symbol: the encoded message loses the last 5-k bytes of its 4-byte message id and LEN is adjusted
fn shorten(mut enc: Vec<u8>, sym: &Sym, storage: bool) -> Vec<u8> {
    // a storage-header ECU id field with bytes behind its first NUL: the id is still "S"
    if storage && enc.len() >= 16 && &enc[12..16] == b"S\0\0\0" {
        enc[14] = b'X';
        enc[15] = 0xFF;
    }
    if sym.short > 0 {
        let cut = 5 - sym.short as usize;
        let n = enc.len() - cut;
        enc.truncate(n);
        let at = if storage { 16 } else { 0 };
        let len = (n - at) as u16;
        enc[at + 2..at + 4].copy_from_slice(&len.to_be_bytes());
    }
    enc
}
/// storage-header contents vary with the position in the stream: ordinary, the largest legal and
/// illegal microsecond counts, all-ones (uninitialised), zero, and ECU ids of every length
fn storage_hdr(counter: u8) -> RefStorage {
    let micros = [7u32, 999_999, 1_000_000, 1_000_001, 0xFFFF_FFFF, 0][counter as usize % 6];
    let secs = [1000 + counter as u32, 0, 0xFFFF_FFFF, 0x8000_0000][(counter as usize / 6) % 4];
    storage(secs, micros, ["STO", "", "S", "STOR", "\u{e9}1"][(counter as usize / 2) % 5])
}

type Tally = BTreeMap<String, [usize; 8]>;
#[derive(Debug, Clone, PartialEq, Default)]
struct Canon {
    app: Tally,
    ctx: Tally,
    ecu: Tally,
    non_verbose: bool,
}
fn bucket(sym: &Sym) -> usize {
    // order: non_log, fatal, error, warning, info, debug, verbose, invalid
    match sym.ext {
        None => 0,
        Some((0, l, ..)) if (1..=6).contains(&l) => l as usize,
        Some((0, ..)) => 7,
        Some(_) => 0,
    }
}
fn tally(stream: &[Sym]) -> Canon {
    let mut c = Canon::default();
    for s in stream {
        let b = bucket(s);
        c.ecu.entry(s.ecu.unwrap_or("NONE").to_string()).or_insert([0; 8])[b] += 1;
        match s.ext {
            Some((_, _, verbose, a, x)) => {
                c.app.entry(a.to_string()).or_insert([0; 8])[b] += 1;
                c.ctx.entry(x.to_string()).or_insert([0; 8])[b] += 1;
                if !verbose {
                    c.non_verbose = true;
                }
            }
            None => c.non_verbose = true,
        }
    }
    c
}
fn ld(l: &LevelDistribution) -> [usize; 8] {
    [l.non_log, l.log_fatal, l.log_error, l.log_warning, l.log_info, l.log_debug, l.log_verbose, l.log_invalid]
}
/// canonical form of a StatisticInfo; Err if an id is listed twice
fn canon(s: &StatisticInfo) -> Result<Canon, String> {
    let conv = |v: &Vec<(String, LevelDistribution)>, what: &str| -> Result<Tally, String> {
        let mut t = Tally::new();
        for (id, l) in v {
            if t.insert(id.clone(), ld(l)).is_some() {
                return Err(format!("{} id {:?} is listed more than once", what, id));
            }
        }
        Ok(t)
    };
    Ok(Canon { app: conv(&s.app_ids, "application")?, ctx: conv(&s.context_ids, "context")?, ecu: conv(&s.ecu_ids, "ECU")?, non_verbose: s.contained_non_verbose })
}
fn add(a: &Canon, b: &Canon) -> Canon {
    let sum = |x: &Tally, y: &Tally| {
        let mut t = x.clone();
        for (k, v) in y {
            let e = t.entry(k.clone()).or_insert([0; 8]);
            for i in 0..8 {
                e[i] += v[i];
            }
        }
        t
    };
    Canon { app: sum(&a.app, &b.app), ctx: sum(&a.ctx, &b.ctx), ecu: sum(&a.ecu, &b.ecu), non_verbose: a.non_verbose || b.non_verbose }
}
fn clone_info(s: &StatisticInfo) -> StatisticInfo {
    StatisticInfo { app_ids: s.app_ids.clone(), context_ids: s.context_ids.clone(), ecu_ids: s.ecu_ids.clone(), contained_non_verbose: s.contained_non_verbose }
}
fn exact(s: &StatisticInfo) -> String {
    format!("{:?}", s)
}

struct Seen {
    log_level: Option<LogLevel>,
    storage_header: Option<StorageHeader>,
    standard_header: StandardHeader,
    extended_header: Option<ExtendedHeader>,
    payload: Vec<u8>,
    is_verbose: bool,
}
#[derive(Default)]
struct Recorder {
    seen: Vec<Seen>,
}
impl StatisticCollector for Recorder {
    fn collect_statistic(&mut self, s: Statistic) -> Result<(), DltParseError> {
        self.seen.push(Seen { log_level: s.log_level, storage_header: s.storage_header, standard_header: s.standard_header, extended_header: s.extended_header, payload: s.payload.to_vec(), is_verbose: s.is_verbose });
        Ok(())
    }
}

fn collect(bytes: &[u8], storage: bool) -> Result<StatisticInfo, String> {
    let mut reader = DltMessageReader::with_capacity(65_551, 65_551, bytes, storage);
    let mut c = StatisticInfoCollector::default();
    match catch(|| collect_statistics(&mut reader, &mut c)) {
        Err(p) => Err(format!("collect_statistics panicked: {}", p)),
        Ok(Err(e)) => Err(format!("collect_statistics failed: {:?}", e)),
        Ok(Ok(())) => Ok(c.collect()),
    }
}

fn judge(stream: &[Sym], storage: bool, max_bfs_parts: usize, loc: &mut Local) {
    let msgs: Vec<RefMsg> = stream.iter().enumerate().map(|(i, s)| build(s, storage, i as u8)).collect();
    let encs: Vec<Vec<u8>> = msgs.iter().zip(stream.iter()).map(|(m, s)| shorten(encode(m).0, s, storage)).collect();
    let whole: Vec<u8> = encs.concat();
    let desc = || format!("{} message(s) {:?}{}", stream.len(), stream.iter().map(|s| format!("{}/{}", s.ecu.unwrap_or("-"), match s.ext { None => "noext".to_string(), Some((t, l, v, a, c)) => format!("t{}.{}{}:{}:{}", t, l, if v { "v" } else { "n" }, a, c) })).collect::<Vec<_>>(), if storage { ", storage headers" } else { "" });
    let details = || json!({"stream_hex": hex_short(&whole), "stream": desc()});
    loc.evals += 1;
    loc.traces += 1;
    loc.state(fnv64(&whole) ^ storage as u64, stream.len() >= 2);
    // (1) recording collector
    {
        let mut reader = DltMessageReader::with_capacity(65_551, 65_551, &whole[..], storage);
        let mut rec = Recorder::default();
        loc.transitions += 1;
        match catch(|| collect_statistics(&mut reader, &mut rec)) {
            Err(p) => return loc.violation("collect_statistics panics", format!("collect_statistics panicked ({}) on {}", p, desc()), details()),
            Ok(Err(e)) => return loc.violation("collect_statistics fails on a well-formed stream", format!("collect_statistics returned {:?} on {}", e, desc()), details()),
            Ok(Ok(())) => {}
        }
        if rec.seen.len() != msgs.len() {
            return loc.violation("collector visits a wrong number of messages", format!("{} messages in the stream but the collector was called {} times: {}", msgs.len(), rec.seen.len(), desc()), details());
        }
        for (i, (s, m)) in rec.seen.iter().zip(msgs.iter()).enumerate() {
            let mut cm = to_crate(m);
            let mut payload = vec![];
            encode_payload(&m.payload, m.big, &mut payload, &mut Sites::default());
            if stream[i].short > 0 {
                let cut = 5 - stream[i].short as usize;
                payload.truncate(payload.len() - cut);
                cm.header.payload_length -= cut as u16;
            }
            let expect_level = match &m.ext {
                Some(e) if e.mstp == 0 => match message_type_of(0, e.mtin) {
                    dlt_core::dlt::MessageType::Log(l) => Some(l),
                    _ => None,
                },
                _ => None,
            };
            let ok = s.standard_header == cm.header && s.extended_header == cm.extended_header && s.storage_header == cm.storage_header && s.payload == payload && s.is_verbose == m.ext.as_ref().map(|e| e.verbose).unwrap_or(false) && s.log_level == expect_level;
            if !ok {
                return loc.violation("collector sees wrong header values", format!("message {} of {}: collector saw level {:?} verbose {} header {:?} ext {:?} storage {:?} payload {} bytes; expected level {:?} header {:?} ext {:?} payload {} bytes", i, desc(), s.log_level, s.is_verbose, s.standard_header, s.extended_header, s.storage_header, s.payload.len(), expect_level, cm.header, cm.extended_header, payload.len()), details());
            }
        }
    }
    // (2) standard collector vs independent tally
    let expect = tally(stream);
    let total = match collect(&whole, storage) {
        Ok(t) => t,
        Err(e) => return loc.violation("collect_statistics fails", format!("{} on {}", e, desc()), details()),
    };
    loc.transitions += 1;
    match canon(&total) {
        Err(e) => return loc.violation("collected statistics list an id twice", format!("{}: {}", e, desc()), details()),
        Ok(c) => {
            if c != expect {
                loc.outcome("tally differs");
                return loc.violation("collected statistics differ from the independent tally", format!("stream {}:\n    collected: {:?}\n    tally:     {:?}", desc(), c, expect), details());
            }
            let ecu_total: usize = c.ecu.values().map(|v| v.iter().sum::<usize>()).sum();
            if ecu_total != stream.len() {
                return loc.violation("ECU totals do not add up to the number of messages", format!("{} messages, ECU totals {}", stream.len(), ecu_total), details());
            }
        }
    }
    loc.outcome("tally equal");
    if stream.len() < 2 {
        return;
    }
    // (3) every composition into contiguous parts; BFS over all merge histories
    let n = stream.len();
    for mask in 0..(1u64 << (n - 1)) {
        let comp = crate::explore::composition(n, mask);
        if comp.len() < 2 {
            continue;
        }
        let mut parts: Vec<StatisticInfo> = vec![];
        let mut o = 0usize;
        for c in &comp {
            let bytes: Vec<u8> = encs[o..o + *c as usize].concat();
            o += *c as usize;
            match collect(&bytes, storage) {
                Ok(p) => parts.push(p),
                Err(e) => return loc.violation("collect_statistics fails on a part", format!("{} on a part of {}", e, desc()), details()),
            }
        }
        if parts.len() > max_bfs_parts {
            // too many parts for the full history search: left fold and right fold only
            for rev in [false, true] {
                let mut it: Vec<StatisticInfo> = parts.iter().map(clone_info).collect();
                if rev {
                    it.reverse();
                }
                let mut acc = StatisticInfo::new();
                for p in it {
                    acc.merge(p);
                    loc.transitions += 1;
                }
                if canon(&acc).ok().as_ref() != Some(&expect) {
                    return loc.violation("merged statistics differ from the whole", format!("fold ({}) of parts {:?} of {} gives {:?}, whole stream {:?}", if rev { "right to left" } else { "left to right" }, comp, desc(), canon(&acc), expect), details());
                }
            }
            loc.outcome("compositions folded both ways");
            continue;
        }
        // BFS; a state is a list of partial results (real values), deduplicated by exact representation
        let key_of = |st: &Vec<StatisticInfo>| -> String {
            let mut ks: Vec<String> = st.iter().map(exact).collect();
            ks.sort();
            ks.join("|")
        };
        let mut seen: HashSet<String> = HashSet::new();
        let mut queue: VecDeque<(Vec<StatisticInfo>, Vec<String>)> = VecDeque::new();
        seen.insert(key_of(&parts));
        queue.push_back((parts, vec![]));
        let mut nstates = 0u64;
        let mut terminals = 0u64;
        while let Some((st, hist)) = queue.pop_front() {
            nstates += 1;
            // invariant in every state
            let mut sum = Canon::default();
            for p in &st {
                match canon(p) {
                    Err(e) => return loc.violation("merge produces duplicate ids", format!("{} after merge history {:?} of parts {:?} of {}", e, hist, comp, desc()), details()),
                    Ok(c) => sum = add(&sum, &c),
                }
            }
            if sum != expect {
                loc.outcome("merge invariant broken");
                return loc.violation("merged statistics differ from the whole", format!("after merge history {:?} of parts {:?} of {} the parts sum to {:?}, the whole stream gives {:?}", hist, comp, desc(), sum, expect), details());
            }
            if st.len() == 1 {
                terminals += 1;
                continue;
            }
            let mut push = |next: Vec<StatisticInfo>, step: String, queue: &mut VecDeque<(Vec<StatisticInfo>, Vec<String>)>, seen: &mut HashSet<String>| {
                loc.transitions += 1;
                let k = key_of(&next);
                if seen.insert(k) {
                    let mut h = hist.clone();
                    h.push(step);
                    queue.push_back((next, h));
                }
            };
            for i in 0..st.len() {
                for j in 0..st.len() {
                    if i == j {
                        continue;
                    }
                    let mut next: Vec<StatisticInfo> = vec![];
                    let mut target = clone_info(&st[i]);
                    target.merge(clone_info(&st[j]));
                    for (k, p) in st.iter().enumerate() {
                        if k == i {
                            next.push(clone_info(&target));
                        } else if k != j {
                            next.push(clone_info(p));
                        }
                    }
                    push(next, format!("p{}.merge(p{})", i, j), &mut queue, &mut seen);
                }
                // merging into / with an empty StatisticInfo
                let mut into_new = StatisticInfo::new();
                into_new.merge(clone_info(&st[i]));
                let mut with_new = clone_info(&st[i]);
                with_new.merge(StatisticInfo::new());
                for (v, what) in [(into_new, "new().merge(p)"), (with_new, "p.merge(new())")] {
                    let mut next: Vec<StatisticInfo> = st.iter().map(clone_info).collect();
                    next[i] = v;
                    push(next, format!("{} for p{}", what, i), &mut queue, &mut seen);
                }
            }
        }
        loc.outcome_n("merge-history states visited", nstates);
        loc.outcome_n("terminal merge states checked", terminals);
        for k in 0..nstates {
            loc.state(mix(fnv64(&whole) ^ storage as u64, mix(mask, k + 1)), true);
        }
    }
    loc.sample(|| json!({"stream": desc(), "statistics": format!("{:?}", expect)}));
}

/// Long streams: tally of the whole, and for several partitions into contiguous parts the left
/// fold, the right fold and a balanced pairwise (tree) merge of the per-part results.
fn judge_long(stream: &[Sym], storage: bool, what: &str, loc: &mut Local) {
    let encs: Vec<Vec<u8>> = stream.iter().enumerate().map(|(i, s)| shorten(encode(&build(s, storage, i as u8)).0, s, storage)).collect();
    let whole: Vec<u8> = encs.concat();
    let n = stream.len();
    let details = || json!({"stream": what, "messages": n, "storage": storage});
    loc.evals += 1;
    loc.traces += 1;
    loc.state(fnv64(&whole) ^ storage as u64, true);
    let expect = tally(stream);
    loc.transitions += 1;
    match collect(&whole, storage).and_then(|t| canon(&t)) {
        Err(e) => return loc.violation("collect_statistics fails on a long stream", format!("{} on {}", e, what), details()),
        Ok(c) => {
            if c != expect {
                loc.outcome("tally differs");
                let diff: Vec<String> = expect.ecu.iter().filter(|(k, v)| c.ecu.get(*k) != Some(v)).map(|(k, v)| format!("ECU {}: expected {:?} got {:?}", k, v, c.ecu.get(k))).chain(expect.app.iter().filter(|(k, v)| c.app.get(*k) != Some(v)).map(|(k, v)| format!("app {}: expected {:?} got {:?}", k, v, c.app.get(k)))).take(4).collect();
                return loc.violation("collected statistics differ from the independent tally", format!("{} ({} messages): {:?}", what, n, diff), details());
            }
        }
    }
    loc.outcome("tally equal");
    // partitions: k equal parts for several k, singletons at both ends, and one part per message for short streams
    let mut partitions: Vec<Vec<usize>> = vec![];
    for k in [2usize, 3, 7, 16, 255, 256, 257] {
        if k <= n {
            let mut cuts: Vec<usize> = (1..k).map(|j| j * n / k).collect();
            cuts.dedup();
            partitions.push(cuts);
        }
    }
    partitions.push(vec![1]);
    partitions.push(vec![n - 1]);
    partitions.push(vec![1, n - 1]);
    if n <= 1100 {
        partitions.push((1..n).collect());
    }
    for cuts in partitions {
        let mut parts: Vec<StatisticInfo> = vec![];
        let mut o = 0usize;
        for c in cuts.iter().cloned().chain(std::iter::once(n)) {
            if c <= o {
                continue;
            }
            match collect(&encs[o..c].concat(), storage) {
                Ok(p) => parts.push(p),
                Err(e) => return loc.violation("collect_statistics fails on a part", format!("{} on messages {}..{} of {}", e, o, c, what), details()),
            }
            o = c;
        }
        let np = parts.len();
        let check = |acc: &StatisticInfo, how: &str, loc: &mut Local| -> bool {
            match canon(acc) {
                Ok(c) if c == expect => true,
                other => {
                    loc.outcome("merge differs");
                    loc.violation("merged statistics differ from the whole", format!("{} of {} parts of {} ({} messages) gives {}", how, np, what, n, match other { Ok(c) => format!("ECU {:?} ...", c.ecu.iter().take(3).collect::<Vec<_>>()), Err(e) => e }), details());
                    false
                }
            }
        };
        // left fold, right fold
        for rev in [false, true] {
            let mut it: Vec<StatisticInfo> = parts.iter().map(clone_info).collect();
            if rev {
                it.reverse();
            }
            let mut acc = StatisticInfo::new();
            for p in it {
                acc.merge(p);
                loc.transitions += 1;
            }
            if !check(&acc, if rev { "right-to-left fold" } else { "left-to-right fold" }, loc) {
                return;
            }
        }
        // balanced tree
        let mut level: Vec<StatisticInfo> = parts.iter().map(clone_info).collect();
        while level.len() > 1 {
            let mut next = vec![];
            let mut it = level.into_iter();
            while let Some(mut a) = it.next() {
                if let Some(b) = it.next() {
                    a.merge(b);
                    loc.transitions += 1;
                }
                next.push(a);
            }
            level = next;
        }
        if !check(&level[0], "balanced pairwise merge", loc) {
            return;
        }
        loc.outcome("partition merged three ways");
    }
}

fn leak(s: String) -> &'static str {
    Box::leak(s.into_boxed_str())
}

pub fn run(ctx: &Ctx) {
    ctx.enable_trace_pass(ctx.tier.pick(2000u64, 20000u64));
    // long streams (counters beyond 255 / 65535; many distinct ids)
    {
        let full = full_alphabet();
        let many: Vec<Sym> = {
            // 300 ECU ids, 400 app ids, 500 context ids combined by coprime strides
            let ecus: Vec<&'static str> = (0..300).map(|i| leak(format!("e{:03}", i))).collect();
            let apps: Vec<&'static str> = (0..400).map(|i| leak(format!("a{:03}", i))).collect();
            let ctxs: Vec<&'static str> = (0..500).map(|i| leak(format!("c{:03}", i))).collect();
            let t = types12();
            (0..6000usize).map(|i| Sym { ecu: if i % 11 == 0 { None } else { Some(ecus[(i * 7) % 300]) }, ext: if i % 13 == 0 { None } else { let (mt, mi) = t[(i * 5) % 12]; Some((mt, mi, i % 3 != 0, apps[(i * 3) % 400], ctxs[(i * 11) % 500])) }, short: 0 }).collect()
        };
        let lens: Vec<usize> = match ctx.tier {
            Tier::Quick => vec![255, 256, 257, 1000, 66_000],
            Tier::Thorough => vec![255, 256, 257, 1000, 4096, 65_535, 65_536, 65_537, 140_000],
        };
        let sp = Space::new(&[lens.len(), 4, 2]);
        let s2 = sp.clone();
        let (full, many, lens) = (&full, &many, &lens);
        ctx.run_family(Family::new("c10.long_streams", sp.size(), format!("streams of N messages for N in {:?} x 4 shapes (one symbol repeated, two symbols alternating with the same ids in different buckets, the full 291-symbol alphabet cycled with stride 7, a 6000-symbol alphabet with 300 ECU / 400 application / 500 context ids) x storage mode; tally of the whole; partitions into 2,3,7,16,255,256,257 equal parts, singletons at the ends and (N <= 1100) one part per message, each merged by left fold, right fold and balanced tree", lens), move |i, loc| {
            let c = s2.coords(i);
            let n = lens[c[0]];
            let stream: Vec<Sym> = (0..n)
                .map(|j| match c[1] {
                    0 => full[5].clone(),
                    1 => {
                        if j % 2 == 0 {
                            full[9].clone()
                        } else {
                            full[1].clone()
                        }
                    }
                    2 => full[(j * 7) % full.len()].clone(),
                    _ => many[(j * 17) % many.len()].clone(),
                })
                .collect();
            judge_long(&stream, c[2] == 1, &format!("shape {} with {} messages", c[1], n), loc);
        }).chunk(1).trace(4));
    }
    // many distinct ids on BOTH sides of a merge (size-gated index structures), and more distinct ids
    // in one table than any plausible bound
    {
        let nids = ctx.tier.pick(5000usize, 12_000usize);
        let ids: Vec<&'static str> = (0..nids.max(101_000)).map(|i| {
            // 4 characters over a 62-symbol alphabet
            let a = b"0123456789abcdefghijklmnopqrstuvwxyzABCDEFGHIJKLMNOPQRSTUVWXYZ";
            let mut s = String::new();
            let mut j = i;
            for _ in 0..4 {
                s.push(a[j % 62] as char);
                j /= 62;
            }
            leak(s)
        }).collect();
        let t = types12();
        let shapes = ctx.tier.pick(1usize, 2usize);
        let (ids, t) = (&ids, &t);
        ctx.run_family(Family::new("c10.many_ids", (shapes * 2) as u64, format!("a stream of {} messages cycling twice through {} distinct context ids (x 37 application ids x 5 ECU ids): both halves know every id (merges of two tables of {} ids each); thorough: also 101000 messages with 101000 distinct context ids, split 100800 + 200; x storage mode", 2 * nids, nids, nids), move |i, loc| {
            let storage = i % 2 == 1;
            let big = i / 2 == 1;
            let n = if big { 101_000 } else { 2 * nids };
            let stream: Vec<Sym> = (0..n)
                .map(|j| {
                    let (mt, mi) = t[(j * 5) % 12];
                    Sym { ecu: if j % 6 == 5 { None } else { Some(ids[j % 5]) }, ext: Some((mt, mi, j % 3 != 0, ids[100 + j % 37], ids[if big { j } else { j % nids }])), short: 0 }
                })
                .collect();
            judge_long(&stream, storage, &format!("{} messages over {} distinct context ids", n, if big { n } else { nids }), loc);
        }).chunk(1).trace(0));
    }
    // directly constructed statistics with large counters: merge is an exact sum
    // the largest messages the length field allows, through the default reader and a minimal one
    {
        let lens: Vec<usize> = (65_500..=65_535).collect();
        let sp = Space::new(&[lens.len(), 2, 2, 2]);
        let s2 = sp.clone();
        let lens = &lens;
        ctx.run_family(Family::new("c10.max_size_messages", sp.size(), "streams [log message, a message of EVERY declared length 65500..=65535 (with / without extended header), log message] x storage headers on/off x {default reader, minimal capacities}: every message is visited and tallied", move |i, loc| {
            let c = s2.coords(i);
            let (l, with_ext, storage, default_reader) = (lens[c[0]], c[1] == 1, c[2] == 1, c[3] == 1);
            let small = Sym { ecu: Some("E1"), ext: Some((0, 4, true, "A1", "C1")), short: 0 };
            let e = if with_ext { Some(ext(MSTP_CONTROL, 1, "BIGA", "BIGC")) } else { None };
            let headers = 4 + 4 + if with_ext { 10 } else { 0 };
            // control / non-verbose payload: 4 (1) id bytes + filler so that the declared length is exactly l
            let p = if with_ext { RefPayload::Control(0x11, vec![0xAB; l - headers - 1]) } else { RefPayload::NonVerbose(7, vec![0xAB; l - headers - 4]) };
            let mut big = msg_with(0x04, 1, e, p, if storage { Some(storage_hdr(1)) } else { None });
            big.ecu = Some("BIG".into());
            let big_bytes = encode(&big).0;
            assert_eq!(big_bytes.len() - if storage { 16 } else { 0 }, l, "harness: big message length");
            let mut whole = shorten(encode(&build(&small, storage, 0)).0, &small, storage);
            whole.extend_from_slice(&big_bytes);
            whole.extend_from_slice(&shorten(encode(&build(&small, storage, 2)).0, &small, storage));
            let mut expect = tally(&[small.clone(), small.clone()]);
            expect.ecu.entry("BIG".into()).or_insert([0; 8])[0] += 1;
            if with_ext {
                expect.app.entry("BIGA".into()).or_insert([0; 8])[0] += 1;
                expect.ctx.entry("BIGC".into()).or_insert([0; 8])[0] += 1;
            }
            expect.non_verbose = true;
            loc.evals += 1;
            loc.traces += 1;
            loc.transitions += 1;
            loc.state(i + 0x6000_0000, true);
            let what = || format!("[log, message of declared length {} ({} extended header), log], storage headers {}, {} reader", l, if with_ext { "with" } else { "without" }, storage, if default_reader { "default" } else { "minimal-capacity" });
            let details = || json!({"case": what()});
            let got = catch(|| {
                let mut c = StatisticInfoCollector::default();
                let r = if default_reader {
                    let mut reader = DltMessageReader::new(&whole[..], storage);
                    collect_statistics(&mut reader, &mut c)
                } else {
                    let mut reader = DltMessageReader::with_capacity(65_551, 65_551, &whole[..], storage);
                    collect_statistics(&mut reader, &mut c)
                };
                r.map(|_| c.collect())
            });
            match got {
                Err(p) => loc.violation("collect_statistics panics", format!("collect_statistics panicked ({}) on {}", p, what()), details()),
                Ok(Err(e)) => loc.violation("collect_statistics fails on a well-formed stream", format!("collect_statistics returned {:?} on {}", e, what()), details()),
                Ok(Ok(info)) => match canon(&info) {
                    Ok(cn) if cn == expect => loc.outcome("tally equal"),
                    other => loc.violation("collected statistics differ from the independent tally", format!("{}:\n    collected: {:?}\n    tally:     {:?}", what(), other, expect), details()),
                },
            }
        }));
    }
    {
        let vals: Vec<usize> = vec![0, 1, 255, 256, 65_535, 65_536, (1usize << 31) - 1, 1usize << 31, (1usize << 32) - 1, 1usize << 32, (1usize << 32) + 5, usize::MAX / 2 - 3];
        let nv = vals.len();
        let sp = Space::new(&[nv, nv, 8, 3]);
        let s2 = sp.clone();
        let vals = &vals;
        ctx.run_family(Family::new("c10.big_counts", sp.size(), format!("two directly constructed StatisticInfo values whose counter in bucket b (all 8 buckets) is x and y for x,y in {:?}: same id in both / different ids / id in one only; a.merge(b), b.merge(a), new().merge(a).merge(b) must all be the exact sum", vals), move |i, loc| {
            let c = s2.coords(i);
            let (x, y, b, shape) = (vals[c[0]], vals[c[1]], c[2], c[3]);
            let mk = |v: usize, id: &str, other: usize| -> StatisticInfo {
                let mut a = [other; 8];
                a[b] = v;
                let l = LevelDistribution { non_log: a[0], log_fatal: a[1], log_error: a[2], log_warning: a[3], log_info: a[4], log_debug: a[5], log_verbose: a[6], log_invalid: a[7] };
                StatisticInfo { app_ids: vec![(id.to_string(), l.clone())], context_ids: vec![("C".to_string(), l.clone()), (id.to_string(), l.clone())], ecu_ids: vec![(id.to_string(), l)], contained_non_verbose: v % 2 == 1 }
            };
            let (ida, idb) = match shape {
                0 => ("X", "X"),
                1 => ("X", "Y"),
                _ => ("Y", "X"),
            };
            let a = mk(x, ida, 1);
            let bb = mk(y, idb, 2);
            loc.evals += 1;
            loc.traces += 1;
            loc.state(i, true);
            let expect = match (canon(&a), canon(&bb)) {
                (Ok(ca), Ok(cb)) => add(&ca, &cb),
                _ => unreachable!(),
            };
            let runs: Vec<(&str, Box<dyn Fn() -> StatisticInfo>)> = vec![
                ("a.merge(b)", Box::new(|| { let mut t = clone_info(&a); t.merge(clone_info(&bb)); t })),
                ("b.merge(a)", Box::new(|| { let mut t = clone_info(&bb); t.merge(clone_info(&a)); t })),
                ("new().merge(a).merge(b)", Box::new(|| { let mut t = StatisticInfo::new(); t.merge(clone_info(&a)); t.merge(clone_info(&bb)); t })),
            ];
            for (how, f) in runs {
                loc.transitions += 1;
                match catch(|| f()) {
                    Err(p) => return loc.violation("merge panics", format!("{} panicked ({}) for counters {} and {} in bucket {}", how, p, x, y, b), json!({"x": x, "y": y, "bucket": b})),
                    Ok(r) => {
                        if canon(&r).ok().as_ref() != Some(&expect) {
                            loc.outcome("merge differs");
                            return loc.violation("merged statistics differ from the sum", format!("{} for counters {} and {} in bucket {} (ids {}/{}) gives {:?}, expected {:?}", how, x, y, b, ida, idb, canon(&r), expect), json!({"x": x, "y": y, "bucket": b}));
                        }
                    }
                }
            }
            loc.outcome("exact sum");
        }));
    }
    // id pairs that collide when an implementation joins application and context id with a
    // delimiter: (x+d, y) vs (x, d+y), (x+d+y, "") vs ("", x+d+y), for every ASCII punctuation d
    {
        let delims: Vec<char> = (0x20u8..0x7F).map(|b| b as char).filter(|c| !c.is_ascii_alphanumeric()).chain(['\t', '\u{1}', 'é']).collect();
        let nd = delims.len() as u64;
        let per = 4u64 + 16 + 64;
        let delims = &delims;
        ctx.run_family(Family::new("c10.joined_key_collisions", nd * per * 2, format!("for each of {} delimiters d (every ASCII punctuation character, blank, tab, 0x01, 'é'): all streams of 1..=3 messages over the four (application, context) id pairs (A+d, B), (A, d+B), (A+d+B, ''), ('', A+d+B) x storage mode; full merge-history search", nd), move |i, loc| {
            let storage = i % 2 == 1;
            let j = i / 2;
            let d = delims[(j / per) as usize];
            let mut k = j % per;
            let syms: Vec<Sym> = {
                let ad = leak(format!("A{}", d));
                let db = leak(format!("{}B", d));
                let adb = leak(format!("A{}B", d));
                // ids are at most 4 bytes: 'é' makes A+d+B 4 bytes, still fine
                vec![Sym { ecu: Some("E1"), ext: Some((0, 4, true, ad, "B")), short: 0 }, Sym { ecu: Some("E1"), ext: Some((0, 2, true, "A", db)), short: 0 }, Sym { ecu: Some("E1"), ext: Some((0, 4, false, adb, "")), short: 0 }, Sym { ecu: None, ext: Some((MSTP_CONTROL, 1, false, "", adb)), short: 0 }]
            };
            let len = if k < 4 { 1 } else if k < 20 { k -= 4; 2 } else { k -= 20; 3 };
            let mut stream = vec![];
            for _ in 0..len {
                stream.push(syms[(k % 4) as usize].clone());
                k /= 4;
            }
            judge(&stream, storage, 5, loc);
        }));
    }
    ctx.set_rule("case = message stream (sequence of header symbols); per stream: recording collector, standard collector vs independent tally, and for every composition into contiguous parts an explicit-state BFS over all merge histories (states = lists of real partial StatisticInfo values, deduplicated by exact representation; invariant checked in every state); evidence.states counts streams plus merge-history states; non-trivial = stream of at least 2 messages");
    ctx.assume("state canonicalisation is NOT applied to the values that are merged (vector order is kept, so order-dependent merge bugs stay visible); only the invariant compares canonical sums, which is sound because the property compares tallies, not vector order");
    let full = full_alphabet();
    let s12 = subset12();
    let s4 = subset4();
    let max_parts = 5;
    {
        let n = full.len() as u64;
        let full = &full;
        ctx.run_family(Family::new("c10.full_alphabet", (n + n * n) * 2, format!("all streams of 1..=2 messages over the full header alphabet ({} symbols: ECU {{none,E1,E2}} x {{no extended header, 2 app ids x 2 context ids x 12 message types x verbose bit}}) x storage mode", n), move |i, loc| {
            let storage = i % 2 == 1;
            let j = i / 2;
            let stream: Vec<Sym> = if j < n { vec![full[j as usize].clone()] } else { let k = j - n; vec![full[(k % n) as usize].clone(), full[(k / n) as usize].clone()] };
            judge(&stream, storage, max_parts, loc);
        }));
    }
    for (name, alpha, maxlen) in [("c10.subset12", &s12, ctx.tier.pick(3u32, 4u32)), ("c10.subset4", &s4, ctx.tier.pick(5u32, 6u32))] {
        let n = alpha.len() as u64;
        let mut bounds = vec![];
        let mut total = 0u64;
        for l in 1..=maxlen {
            total += n.pow(l);
            bounds.push(total);
        }
        ctx.run_family(Family::new(name, total * 2, format!("all streams of 1..={} messages over a {}-symbol collision-forcing alphabet (same ids in different buckets, app id == context id text, ECU 'NONE' vs absent, empty ids) x storage mode; every composition into parts; BFS over all merge histories for up to {} parts", maxlen, n, max_parts), move |i, loc| {
            let storage = i % 2 == 1;
            let mut j = i / 2;
            let mut l = 0usize;
            while j >= bounds[l] {
                l += 1;
            }
            if l > 0 {
                j -= bounds[l - 1];
            }
            let mut stream = vec![];
            for _ in 0..=l {
                stream.push(alpha[(j % n) as usize].clone());
                j /= n;
            }
            judge(&stream, storage, max_parts, loc);
        }));
    }
}
