//! C02 -- writer and parser agree with an independent reference codec.
//! Encode side: crate bytes == refmodel::encode bytes over all of U and for the sub-writers.
//! Decode side: verdict class, field values and consumed length == refmodel::decode over the
//! decode input space (canonical, dialect, d<=2 neighbourhoods, header fields, short strings).
//! Self-check of the checker: decode(encode(m)) == m over all of U, and fixed anchors.
use crate::common::*;
use crate::inputs::*;
use crate::refmodel::*;
use crate::universe::*;
use byteorder::{BigEndian, LittleEndian};
use dlt_core::parse::{dlt_message, DltParseError, ParsedMessage};
use serde_json::json;

pub fn judge_encode(m: &RefMsg, loc: &mut Local) {
    let cm = to_crate(m);
    loc.evals += 1;
    loc.transitions += 1;
    loc.traces += 1;
    let (expect, _) = encode(m);
    loc.state(fnv64(&expect), true);
    // self-check of the reference: decode(encode(m)) == m
    match decode(&expect, m.storage.is_some()) {
        RefVerdict::Message(back, used) if *back == *m && used == expect.len() => {}
        other => panic!("reference codec self-check failed: decode(encode(m)) = {:?} for m = {:?}", other, m),
    }
    match catch(|| cm.as_bytes()) {
        Err(p) => {
            loc.outcome("as_bytes panic");
            loc.violation("as_bytes panics", format!("Message::as_bytes panicked ({}) for {}", p, fp(&cm)), json!({"message": fp(&cm)}));
        }
        Ok(got) => {
            if got == expect {
                loc.outcome("bytes equal");
                loc.sample(|| json!({"message": fp(&cm), "bytes": hex_short(&got)}));
                // the same message built through the public constructor (which computes LEN, the
                // verbose flag and NOAR itself) must produce the same bytes
                loc.transitions += 1;
                match catch(|| dlt_core::dlt::Message::new(config_of(m), cm.storage_header.clone()).as_bytes()) {
                    Err(p) => loc.violation("Message::new(..).as_bytes panics", format!("Message::new(..).as_bytes() panicked ({}) for the configuration of {}", p, fp(&cm)), json!({"message": fp(&cm)})),
                    Ok(built) if built != expect => {
                        let at = built.iter().zip(expect.iter()).position(|(a, b)| a != b).unwrap_or(built.len().min(expect.len()));
                        loc.outcome("constructor bytes differ");
                        loc.violation(
                            "bytes of a constructed message differ from the reference layout",
                            format!("Message::new(config).as_bytes() differs from the reference encoding at offset {} (crate {} bytes, reference {} bytes)\n    message:   {}\n    crate:     {}\n    reference: {}", at, built.len(), expect.len(), fp(&cm), hex_short(&built), hex_short(&expect)),
                            json!({"message": fp(&cm), "crate_hex": hex_short(&built), "reference_hex": hex_short(&expect), "first_difference": at}),
                        );
                    }
                    Ok(_) => loc.outcome("constructor bytes equal"),
                }
            } else {
                let at = got.iter().zip(expect.iter()).position(|(a, b)| a != b).unwrap_or(got.len().min(expect.len()));
                loc.outcome("bytes differ");
                loc.violation(
                    "writer bytes differ from the reference layout",
                    format!("Message::as_bytes differs from the reference encoding at offset {} (crate {} bytes, reference {} bytes)\n    message:   {}\n    crate:     {}\n    reference: {}", at, got.len(), expect.len(), fp(&cm), hex_short(&got), hex_short(&expect)),
                    json!({"message": fp(&cm), "crate_hex": hex_short(&got), "reference_hex": hex_short(&expect), "first_difference": at}),
                );
            }
        }
    }
}

/// sub-writers: headers and single arguments in both byte orders
fn judge_subwriters(m: &RefMsg, loc: &mut Local) {
    let cm = to_crate(m);
    let (whole, _) = encode(m);
    loc.evals += 1;
    loc.traces += 1;
    let base = if m.storage.is_some() { 16 } else { 0 };
    let shl = std_header_len(htyp_of(m));
    let mut check = |what: &str, got: Result<Vec<u8>, String>, expect: &[u8], loc: &mut Local| {
        loc.transitions += 1;
        match got {
            Err(p) => loc.violation(format!("{} panics", what), format!("{} panicked ({}) for {}", what, p, fp(&cm)), json!({"message": fp(&cm)})),
            Ok(g) if g != expect => loc.violation(
                format!("{} differs from the reference layout", what),
                format!("{} = {} but the reference layout is {} for {}", what, hex_short(&g), hex_short(expect), fp(&cm)),
                json!({"message": fp(&cm)}),
            ),
            Ok(_) => loc.outcome("sub-writer equal"),
        }
    };
    if let Some(s) = &cm.storage_header {
        check("StorageHeader::as_bytes", catch(|| s.as_bytes()), &whole[..16], loc);
    }
    check("StandardHeader::as_bytes", catch(|| cm.header.as_bytes()), &whole[base..base + shl], loc);
    if let Some(e) = &cm.extended_header {
        check("ExtendedHeader::as_bytes", catch(|| e.as_bytes()), &whole[base + shl..base + shl + 10], loc);
    }
    if let (RefPayload::Verbose(rargs), dlt_core::dlt::PayloadContent::Verbose(cargs)) = (&m.payload, &cm.payload) {
        for (ra, ca) in rargs.iter().zip(cargs.iter()) {
            for big in [false, true] {
                let mut expect = vec![];
                encode_arg(ra, big, &mut expect, &mut Sites::default());
                let got = catch(|| if big { ca.as_bytes::<BigEndian>() } else { ca.as_bytes::<LittleEndian>() });
                check(if big { "Argument::as_bytes::<BigEndian>" } else { "Argument::as_bytes::<LittleEndian>" }, got, &expect, loc);
                let mut ti_expect = vec![];
                let w = type_info_word(ra);
                ti_expect.extend_from_slice(&if big { w.to_be_bytes() } else { w.to_le_bytes() });
                let got = catch(|| if big { ca.type_info.as_bytes::<BigEndian>() } else { ca.type_info.as_bytes::<LittleEndian>() });
                check("TypeInfo::as_bytes", got, &ti_expect, loc);
            }
        }
    }
}

pub fn class_of(r: &Result<(usize, ParsedMessage), DltParseError>) -> &'static str {
    match r {
        Ok((_, ParsedMessage::Item(_))) => "message",
        Ok((_, ParsedMessage::FilteredOut(_))) => "filtered",
        Ok((_, ParsedMessage::Invalid)) => "reject",
        Err(DltParseError::IncompleteParse { .. }) => "incomplete",
        Err(_) => "reject",
    }
}

pub fn judge_decode(input: &[u8], with_storage: bool, loc: &mut Local) {
    loc.evals += 1;
    loc.transitions += 1;
    loc.traces += 1;
    let refv = decode(input, with_storage);
    loc.state(mix(loc.input_hash(input), with_storage as u64), !matches!(refv, RefVerdict::Incomplete) || input.len() > 3);
    let got = catch(|| dlt_message(input, None, with_storage).map(|(rest, pm)| (input.len() - rest.len(), pm)));
    let details = || json!({"input_hex": hex_short(input), "input_len": input.len(), "with_storage_header": with_storage, "reference": format!("{:?}", refv).chars().take(600).collect::<String>()});
    let got = match got {
        Err(p) => {
            loc.outcome("panic");
            loc.violation("parser panics", format!("dlt_message panicked ({}) on {} (storage mode {}); reference verdict: {}", p, hex_short(input), with_storage, refv.class()), details());
            return;
        }
        Ok(g) => g,
    };
    let gc = class_of(&got);
    if gc != refv.class() {
        loc.outcome("class differs");
        let refdesc = match &refv {
            RefVerdict::Reject(why) => format!("reject ({})", why),
            other => other.class().to_string(),
        };
        let gotdesc = match &got {
            Ok((n, pm)) => format!("{} consuming {}: {}", gc, n, match pm { ParsedMessage::Item(m) => fp(m), o => format!("{:?}", o) }),
            Err(e) => format!("{} ({:?})", gc, e),
        };
        loc.violation(
            format!("verdict {} but reference says {}", gc, refv.class()),
            format!("verdict differs on input {} (storage mode {}):\n    parser:    {}\n    reference: {}", hex_short(input), with_storage, gotdesc, refdesc),
            details(),
        );
        return;
    }
    if let (Ok((used, ParsedMessage::Item(m))), RefVerdict::Message(rm, rused)) = (&got, &refv) {
        let expect = to_crate(rm);
        if *used != *rused {
            loc.outcome("consumed differs");
            loc.violation("consumed length differs from the reference", format!("parser consumed {} bytes, reference {} on input {} (storage mode {})", used, rused, hex_short(input), with_storage), details());
        } else if !same_message(m, &expect) {
            loc.outcome("fields differ");
            loc.violation(
                "field values differ from the reference",
                format!("decoded fields differ on input {} (storage mode {}):\n    parser:    {}\n    reference: {}", hex_short(input), with_storage, fp(m), fp(&expect)),
                details(),
            );
        } else {
            loc.outcome("message agrees");
            loc.sample(|| json!({"input": hex_short(input), "with_storage_header": with_storage, "verdict": "message", "consumed": used}));
        }
    } else {
        loc.outcome(match gc {
            "incomplete" => "incomplete agrees",
            _ => "reject agrees",
        });
    }
}

/// fixed anchors: documented example messages must decode (by the reference) to their documented values
fn anchors() {
    // README / parse.rs doc example
    let ex = unhex("444C5401 262CC94D D8A20C00 45435500 3500001F 45435500 3F88623A 16014150 5000434F 4E001100 00000472 656D6F");
    match decode(&ex, true) {
        RefVerdict::Message(m, used) => {
            assert_eq!(used, 47);
            let s = m.storage.as_ref().unwrap();
            assert_eq!((s.secs, s.micros, s.ecu.as_str()), (0x4DC92C26, 0x000CA2D8, "ECU"));
            assert_eq!(m.ecu.as_deref(), Some("ECU"));
            assert_eq!(m.timestamp, Some(0x3F88623A));
            assert_eq!(m.session, None);
            let e = m.ext.as_ref().unwrap();
            assert_eq!((e.verbose, e.mstp, e.mtin, e.noar, e.apid.as_str(), e.ctid.as_str()), (false, 3, 1, 1, "APP", "CON"));
            assert_eq!(m.payload, RefPayload::Control(0x11, vec![0, 0, 0, 4, 0x72, 0x65, 0x6D, 0x6F]));
        }
        other => panic!("reference anchor (README example) failed: {:?}", other),
    }
    // the suite's DLT_MESSAGE vector: 168 bytes, ECU HFPP, session 0x248, timestamp, log info verbose, 8 args
    let dm = unhex("3D1E00A84846505000000248001C7649510850617261766373 6F00 82000 01A005B3538343A20536F6D654970506F736978436C69656E745D2000 0082000012 0053656E64536F6D6549704D65737361676500 00820000020 03A00 23000000 10010000 0082000011003A20696E7374616E63655F69642030780 0 42000100 0100 008200001700206D656D6F727920627566666572206C656E67746820 00 44000000 1400000000000000");
    match decode(&dm, false) {
        RefVerdict::Message(m, used) => {
            assert_eq!(used, 168);
            assert_eq!(m.ecu.as_deref(), Some("HFPP"));
            assert_eq!(m.session, Some(0x248));
            let e = m.ext.as_ref().unwrap();
            assert_eq!((e.verbose, e.mstp, e.mtin, e.noar, e.apid.as_str(), e.ctid.as_str()), (true, 0, 5, 8, "Para", "vcso"));
            if let RefPayload::Verbose(a) = &m.payload {
                assert_eq!(a.len(), 8);
                assert_eq!(a[0].value, RefValue::Str("[584: SomeIpPosixClient] ".into()));
                assert_eq!(a[3].value, RefValue::I(0x110, 4));
                assert_eq!(a[7].value, RefValue::U(0x14, 8));
            } else {
                panic!("anchor payload");
            }
        }
        other => panic!("reference anchor (DLT_MESSAGE) failed: {:?}", other),
    }
}

pub fn run(ctx: &Ctx) {
    ctx.enable_trace_pass(ctx.tier.pick(20000u64, 200000u64));
    ctx.set_rule("encode side: case = message of U, compared byte for byte with the reference encoding; decode side: case = (byte string, storage mode), compared with the reference decoder's verdict class, fields and consumed length; a state is a distinct case by hash; non-trivial = the reference verdict is not 'incomplete' or the input has more than 3 bytes");
    ctx.assume("the reference codec (refmodel.rs) is written from the AUTOSAR PRS layout; its own consistency is checked on every message of U (decode(encode(m)) == m) and on two documented example messages; control payload modelled as first byte + rest; TRAI carries no data; a network-trace payload is the list of its raw-data arguments");
    ctx.assume("error variants and texts are not compared, only the class message / incomplete / reject");
    anchors();
    // encode side
    for f in universe(ctx.tier) {
        let gen = &f.gen;
        ctx.run_family(Family::new(format!("c02.enc.{}", f.name), f.size, f.about.clone(), move |i, loc| {
            let m = gen(i);
            judge_encode(&m, loc);
        }));
    }
    {
        let seeds = seed_messages(Tier::Thorough);
        let n = seeds.len() as u64;
        let seeds = &seeds;
        ctx.run_family(Family::new("c02.enc.subwriters", n * 2, "StorageHeader / StandardHeader / ExtendedHeader / Argument / TypeInfo ::as_bytes of every seed message (with and without storage header), arguments in both byte orders", move |i, loc| {
            let mut m = seeds[(i / 2) as usize].clone();
            if i % 2 == 1 {
                m.storage = Some(storage(0x0102_0304, 0x0A0B_0C0D, "S€"));
            }
            judge_subwriters(&m, loc);
        }));
        let args = arg_full(ctx.tier);
        let na = args.len() as u64;
        let args = &args;
        ctx.run_family(Family::new("c02.enc.subwriters_args", na, "Argument::as_bytes / TypeInfo::as_bytes of every A_full argument in both byte orders", move |i, loc| {
            let m = msg_with(0, 1, Some(ext(MSTP_LOG, 4, "A", "C")), RefPayload::Verbose(vec![args[i as usize].clone()]), None);
            judge_subwriters(&m, loc);
        }));
    }
    // decode side
    for f in decode_inputs(ctx.tier) {
        let gen = &f.gen;
        ctx.run_family(Family::new(format!("c02.dec.{}", f.name), f.size * VARIANTS, format!("{} x {{as is / no storage header, as is / storage-header mode, storage header prepended / storage-header mode}}", f.about), move |i, loc| {
            let (input, mode) = variant(gen(i / VARIANTS), i % VARIANTS);
            judge_decode(&input, mode, loc);
        }));
    }
    {
        let lows = prefix_sweep_lows(ctx.tier);
        let lows = &lows;
        let tier = ctx.tier;
        ctx.run_family(Family::new("c02.dec.prefix_sweep", prefix_sweep_size(ctx.tier), format!("{} (LEN low bytes {:02x?})", PREFIX_SWEEP_ABOUT, lows), move |i, loc| {
            loc.input_hash_override = Some(i);
            with_prefix_sweep_case(i, tier, lows, |input, mode| judge_decode(input, mode, loc));
        }).distinct().trace(3000));
    }
    // writer history: the bytes written for b must not depend on what was serialised before (memo
    // tables keyed by too little): all ordered pairs over seed messages and their byte-order twins
    // with short and long names / units
    {
        let mut msgs: Vec<RefMsg> = seed_messages(Tier::Quick).into_iter().step_by(3).collect();
        for big in [false, true] {
            for nl in [0usize, 3, 30, 31, 32, 33, 64, 300] {
                for (k, v) in [(RefKind::Uint(4), RefValue::U(0x0102_0304, 4)), (RefKind::Sint(2), RefValue::I(-2, 2)), (RefKind::Float(8), RefValue::F64(0x3FF8_0000_0000_0000)), (RefKind::SFix(4), RefValue::I(5, 4))] {
                    let name = "n".repeat(nl);
                    msgs.push(msg_with(if big { 0x02 } else { 0 }, 1, Some(ext(MSTP_LOG, 4, "APP", "CTX")), RefPayload::Verbose(vec![mk_arg(k, Some((&name, "unit")), 0, false, v, None)]), None));
                }
                let name = "s".repeat(nl);
                msgs.push(msg_with(if big { 0x02 } else { 0 }, 1, Some(ext(MSTP_LOG, 4, "APP", "CTX")), RefPayload::Verbose(vec![mk_arg(RefKind::Str, Some((&name, "")), 1, false, RefValue::Str(name.clone()), None)]), None));
            }
        }
        let n = msgs.len() as u64;
        let msgs = &msgs;
        ctx.run_family(Family::new("c02.enc.history", n * n, format!("all {}^2 ordered pairs (a, b) over seed messages and one-argument messages with names of 0 / 3 / 30..33 / 64 / 300 bytes in both byte orders: serialise a, then b (twice): both serialisations of b must be the reference bytes", n), move |i, loc| {
            let (a, b) = (&msgs[(i / n) as usize], &msgs[(i % n) as usize]);
            let _ = catch(|| to_crate(a).as_bytes());
            judge_encode(b, loc);
            judge_encode(b, loc);
        }).distinct());
    }
    // history: the verdict on b must not depend on what was parsed before (caches, memo tables,
    // thread-local scratch state): for all ordered pairs (a, b) over a diverse input set, parse a,
    // then b twice, and compare both verdicts on b with the reference
    {
        let mut set: Vec<(Vec<u8>, bool)> = vec![];
        for f in decode_inputs(Tier::Quick) {
            let stride: u64 = match f.name.as_str() {
                "dialect.type_info" => 79,
                "canon.u.single_arg" => 17,
                "canon.u.value_sweep" => 251,
                "dialect.strings" | "dialect.noar_len" => 173,
                "dialect.ids" | "dialect.msin_payload_len" => 373,
                "mut.d1" => 1009,
                "canon.u.msin" | "canon.u.htyp" => 73,
                "concat" => 101,
                _ => 0,
            };
            if stride == 0 {
                continue;
            }
            let stride = stride * ctx.tier.pick(2, 1);
            let mut i = 0;
            while i < f.size {
                let (b, mode) = variant((f.gen)(i), i % VARIANTS);
                if b.len() <= 400 {
                    set.push((b, mode));
                }
                i += stride;
            }
        }
        let n = set.len() as u64;
        let set = &set;
        ctx.run_family(Family::new("c02.dec.history", n * n, format!("all {}^2 ordered pairs (a, b) over {} diverse inputs (valid and invalid type-info words, canonical and dialect encodings, mutated and concatenated messages): parse a, then b twice on the same thread; both verdicts on b must equal the reference's", n, n), move |i, loc| {
            let (a, b) = (&set[(i / n) as usize], &set[(i % n) as usize]);
            let _ = catch(|| dlt_message(&a.0, None, a.1).map(|_| ()));
            judge_decode(&b.0, b.1, loc);
            judge_decode(&b.0, b.1, loc);
        }).distinct());
    }
}
