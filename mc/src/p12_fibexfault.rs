//! C12 -- loading any FIBEX file ends with a model or a refusal, never a hang or panic.
//! Fault enumeration: every truncation offset, deletion of every element subtree / end tag /
//! attribute, corruption of every byte with a set of values, bad paths, two-file loads.
//! Each load runs in a worker child process; the parent enforces a deadline, re-runs a case that
//! misses it alone with a longer deadline before calling it a hang, and stops after 3 confirmed
//! hangs.
use crate::common::*;
use crate::fibexgen::*;
use crate::p11_fibex::{cleanup_scratch, scratch_root, thread_dir};
use dlt_core::fibex::{gather_fibex_data, FibexConfig};
use serde_json::json;
use std::cell::RefCell;
use std::io::{BufRead, BufReader, Write};
use std::process::{Child, ChildStdin, Command, Stdio};
use std::sync::atomic::{AtomicU32, Ordering};
use std::sync::mpsc::{channel, Receiver};
use std::time::{Duration, Instant};

const DEADLINE: Duration = Duration::from_secs(10);
const SOLO_DEADLINE: Duration = Duration::from_secs(20);
const MAX_HANGS: u32 = 3;
static CONFIRMED_HANGS: AtomicU32 = AtomicU32::new(0);

/// worker mode: read "id<TAB>path<TAB>path..." lines, load, answer "id<TAB>some|none|panic:.."
pub fn worker_main() -> ! {
    let stdin = std::io::stdin();
    let stdout = std::io::stdout();
    crate::common::install_sink_logger();
    for line in stdin.lock().lines() {
        let line = match line {
            Ok(l) => l,
            Err(_) => break,
        };
        let mut parts = line.split('\t');
        let id = parts.next().unwrap_or("").to_string();
        let paths: Vec<String> = parts.map(|s| s.to_string()).collect();
        log::set_max_level(if id.starts_with('T') { log::LevelFilter::Trace } else { log::LevelFilter::Off });
        let r = catch(|| gather_fibex_data(FibexConfig { fibex_file_paths: paths }));
        let ans = match r {
            Ok(Some(m)) => format!("some:{}", m.frame_map.len()),
            Ok(None) => "none".to_string(),
            Err(p) => format!("panic:{}", p.replace(['\n', '\t'], " ")),
        };
        let mut o = stdout.lock();
        let _ = writeln!(o, "{}\t{}", id, ans);
        let _ = o.flush();
    }
    std::process::exit(0)
}

struct Worker {
    child: Child,
    stdin: ChildStdin,
    rx: Receiver<String>,
    next_id: u64,
}
impl Worker {
    fn spawn() -> Worker {
        let exe = std::env::current_exe().expect("current_exe");
        let mut child = Command::new(exe).arg("C12").arg("--worker").stdin(Stdio::piped()).stdout(Stdio::piped()).stderr(Stdio::null()).spawn().expect("spawn worker");
        let stdin = child.stdin.take().unwrap();
        let stdout = child.stdout.take().unwrap();
        let (tx, rx) = channel();
        std::thread::spawn(move || {
            for l in BufReader::new(stdout).lines() {
                match l {
                    Ok(l) => {
                        if tx.send(l).is_err() {
                            break;
                        }
                    }
                    Err(_) => break,
                }
            }
        });
        Worker { child, stdin, rx, next_id: 0 }
    }
    /// Some(answer) or None on timeout / dead worker (the worker is killed in that case)
    fn load(&mut self, paths: &[String], deadline: Duration) -> Result<String, &'static str> {
        self.next_id += 1;
        // a leading 'T' asks the worker to load with the log level at Trace (trace pass)
        let id = format!("{}{}", if log::max_level() == log::LevelFilter::Trace { "T" } else { "" }, self.next_id);
        let mut line = id.clone();
        for p in paths {
            line.push('\t');
            line.push_str(p);
        }
        line.push('\n');
        if self.stdin.write_all(line.as_bytes()).is_err() || self.stdin.flush().is_err() {
            return Err("worker died");
        }
        loop {
            match self.rx.recv_timeout(deadline) {
                Ok(ans) => {
                    let mut it = ans.splitn(2, '\t');
                    if it.next() == Some(id.as_str()) {
                        return Ok(it.next().unwrap_or("").to_string());
                    }
                }
                Err(std::sync::mpsc::RecvTimeoutError::Timeout) => return Err("timeout"),
                Err(_) => return Err("worker died"),
            }
        }
    }
}
impl Drop for Worker {
    fn drop(&mut self) {
        let _ = self.child.kill();
        let _ = self.child.wait();
    }
}
thread_local! {
    static WORKER: RefCell<Option<Worker>> = const { RefCell::new(None) };
}

/// run one load in this thread's worker; confirmed hangs and panics become violations
fn judge_paths(paths: &[String], what: &str, replay: serde_json::Value, loc: &mut Local) {
    loc.evals += 1;
    loc.transitions += 1;
    loc.traces += 1;
    if CONFIRMED_HANGS.load(Ordering::Relaxed) >= MAX_HANGS {
        loc.outcome("skipped after 3 confirmed hangs");
        return;
    }
    let t0 = Instant::now();
    let first = WORKER.with(|w| {
        let mut w = w.borrow_mut();
        if w.is_none() {
            *w = Some(Worker::spawn());
        }
        let r = w.as_mut().unwrap().load(paths, DEADLINE);
        if r.is_err() {
            *w = None; // kills the worker
        }
        r
    });
    let answer = match first {
        Ok(a) => a,
        Err(why) => {
            // re-run alone in a fresh worker with a longer deadline before calling it a hang
            loc.outcome("cases re-run alone after missing the deadline");
            let mut solo = Worker::spawn();
            match solo.load(paths, SOLO_DEADLINE) {
                Ok(a) => a,
                Err(why2) => {
                    if why2 == "timeout" {
                        CONFIRMED_HANGS.fetch_add(1, Ordering::Relaxed);
                        loc.outcome("confirmed hang");
                        loc.already_confirmed = true; // run twice already (worker, then alone)
                        let key = if what.contains("truncat") { "eof inside PDU/FRAME or another loop (hang on truncation)" } else { "load does not terminate" };
                        loc.violation(key, format!("gather_fibex_data did not return within {:?} (first attempt: {}, {:?}) and again not within {:?} when run alone: {}", DEADLINE, why, t0.elapsed(), SOLO_DEADLINE, what), replay);
                    } else {
                        loc.violation("worker process dies while loading", format!("the worker process died (abort / stack overflow / kill) while loading: {}", what), replay);
                    }
                    return;
                }
            }
        }
    };
    if let Some(p) = answer.strip_prefix("panic:") {
        loc.outcome("panic");
        let site = p.rsplit('@').next().unwrap_or("").trim().to_string();
        loc.violation(format!("gather_fibex_data panics @ {}", site), format!("gather_fibex_data panicked ({}) on {}", p, what), replay);
    } else if answer.starts_with("some") {
        loc.outcome("model");
    } else {
        loc.outcome("refused");
    }
}

/// element / attribute structure of a document, by a small scanner (no XML library)
#[derive(Default)]
struct Structure {
    /// byte ranges whose deletion removes one element subtree
    elements: Vec<(usize, usize)>,
    /// byte ranges of end tags
    end_tags: Vec<(usize, usize)>,
    /// byte ranges of attributes (incl. the leading space)
    attributes: Vec<(usize, usize)>,
    /// byte ranges of attribute values (between the quotes)
    attr_values: Vec<(usize, usize)>,
    /// byte ranges of non-blank element text (trimmed)
    texts: Vec<(usize, usize)>,
}
fn scan(doc: &[u8]) -> Structure {
    let mut s = Structure::default();
    let mut stack: Vec<usize> = vec![];
    let mut i = 0usize;
    while i < doc.len() {
        if doc[i] != b'<' {
            i += 1;
            continue;
        }
        let end = match doc[i..].iter().position(|b| *b == b'>') {
            Some(e) => i + e + 1,
            None => break,
        };
        let tag = &doc[i..end];
        if tag.starts_with(b"<?") || tag.starts_with(b"<!") {
            if tag.starts_with(b"<!--") {
                // comment: skip to -->
                if let Some(e) = doc[i..].windows(3).position(|w| w == b"-->") {
                    i += e + 3;
                    continue;
                }
            }
            i = end;
            continue;
        }
        if tag.starts_with(b"</") {
            s.end_tags.push((i, end));
            if let Some(start) = stack.pop() {
                s.elements.push((start, end));
            }
        } else {
            // attributes: name="value"
            let mut k = 1;
            while k < tag.len() {
                if tag[k] == b' ' && k + 1 < tag.len() && tag[k + 1] != b'/' && tag[k + 1] != b'>' && tag[k + 1] != b' ' {
                    if let Some(q1) = tag[k..].iter().position(|b| *b == b'"') {
                        if let Some(q2) = tag[k + q1 + 1..].iter().position(|b| *b == b'"') {
                            let a_end = k + q1 + 1 + q2 + 1;
                            s.attributes.push((i + k, i + a_end));
                            s.attr_values.push((i + k + q1 + 1, i + a_end - 1));
                            k = a_end;
                            continue;
                        }
                    }
                }
                k += 1;
            }
            if tag.ends_with(b"/>") {
                s.elements.push((i, end));
            } else {
                stack.push(i);
            }
        }
        // element text following this tag
        if let Some(nx) = doc[end..].iter().position(|b| *b == b'<') {
            let (mut a, mut b) = (end, end + nx);
            while a < b && doc[a].is_ascii_whitespace() {
                a += 1;
            }
            while b > a && doc[b - 1].is_ascii_whitespace() {
                b -= 1;
            }
            if b > a {
                s.texts.push((a, b));
            }
        }
        i = end;
    }
    s
}

struct DocFaults {
    name: String,
    doc: Vec<u8>,
    deletions: Vec<(usize, usize, &'static str)>,
    /// value faults: (start, end, replacement, what) -- an attribute value or an element text
    /// replaced by another value of the same document or by a hostile constant
    substitutions: Vec<(usize, usize, Vec<u8>, &'static str)>,
    corrupt: bool,
}
const CORRUPT: [u8; 8] = [b'<', b'>', b'/', b'"', b'&', b' ', 0x00, 0xFF];
impl DocFaults {
    fn n_cases(&self) -> u64 {
        (self.doc.len() as u64 + 1) + self.deletions.len() as u64 + self.substitutions.len() as u64 + if self.corrupt { self.doc.len() as u64 * (CORRUPT.len() as u64 + 2) } else { 0 }
    }
    fn case(&self, mut j: u64) -> (Vec<u8>, String) {
        let n = self.doc.len() as u64;
        if j <= n {
            return (self.doc[..j as usize].to_vec(), format!("document '{}' truncated at byte {} of {}", self.name, j, n));
        }
        j -= n + 1;
        if (j as usize) < self.deletions.len() {
            let (a, b, what) = self.deletions[j as usize];
            let mut d = self.doc[..a].to_vec();
            d.extend_from_slice(&self.doc[b..]);
            return (d, format!("document '{}' with {} at bytes {}..{} removed: {:?}", self.name, what, a, b, String::from_utf8_lossy(&self.doc[a..b.min(a + 60)])));
        }
        j -= self.deletions.len() as u64;
        if (j as usize) < self.substitutions.len() {
            let (a, b, rep, what) = &self.substitutions[j as usize];
            let mut d = self.doc[..*a].to_vec();
            d.extend_from_slice(rep);
            d.extend_from_slice(&self.doc[*b..]);
            let line_start = self.doc[..*a].iter().rposition(|c| *c == b'\n').map(|p| p + 1).unwrap_or(0);
            return (d, format!("document '{}' with {} at bytes {}..{} ({:?}) replaced by {:?}; line: {:?}", self.name, what, a, b, String::from_utf8_lossy(&self.doc[*a..*b]), String::from_utf8_lossy(rep), String::from_utf8_lossy(&self.doc[line_start..(*b + 20).min(self.doc.len())])));
        }
        j -= self.substitutions.len() as u64;
        let per = CORRUPT.len() as u64 + 2;
        let pos = (j / per) as usize;
        let k = (j % per) as usize;
        let mut d = self.doc.clone();
        let v = if k < CORRUPT.len() { CORRUPT[k] } else if k == CORRUPT.len() { d[pos] ^ 0x01 } else { d[pos] ^ 0x20 };
        let old = d[pos];
        d[pos] = v;
        (d, format!("document '{}' with byte {} changed from {:#04x} to {:#04x} (context {:?})", self.name, pos, old, v, String::from_utf8_lossy(&self.doc[pos.saturating_sub(20)..(pos + 20).min(self.doc.len())])))
    }
}

fn documents(tier: Tier) -> Vec<DocFaults> {
    let mut docs: Vec<(String, Vec<u8>, bool)> = vec![];
    for name in ["tests/dlt-messages.xml", "tests/robustness.xml"] {
        let path = format!("{}/{}", crate::common::repo_dir(), name);
        if let Ok(b) = std::fs::read(&path) {
            let small = b.len() <= 4096;
            docs.push((name.to_string(), b, small || tier == Tier::Thorough));
        }
    }
    // generated documents covering every element kind and layout option
    let base: Vec<Elem> = vec![
        Elem::Coding(Coding { id: "COD_A".into(), base_type: "A_UINT16".into() }),
        Elem::Signal(Signal { id: "SIG_A".into(), coding_ref: "COD_A".into() }),
        Elem::Pdu(pdu("P1", Desc::Text("p1 &amp; co".into()), &[("SIG_A", 1), ("S_UINT8", 0)])),
        Elem::Pdu(pdu("P2", Desc::Empty, &[("S_SINT32", 0)])),
        Elem::Pdu(pdu("P3", Desc::EmptyTag, &[])),
        Elem::Frame(frame("ID_1", "f1", &[("P2", 1), ("P1", 0)], Some(manuf(Some("APP1"), Some("CTX1"), Some("T"), Some("I"))))),
        Elem::Frame(frame("ID_2", "f2", &[("P3", 0)], None)),
    ];
    let mut layouts: Vec<(String, Layout)> = vec![
        ("default".into(), Layout::default()),
        ("no indentation".into(), Layout { indent: false, ..Layout::default() }),
        ("noise".into(), Layout { noise: true, ..Layout::default() }),
        ("refs as start/end, ref first".into(), Layout { refs_open_close: true, ref_first: true, ..Layout::default() }),
    ];
    // child orders: each child of PDU / FRAME once in last and once in first position
    for k in 0..5 {
        let mut o: Vec<usize> = (0..5).filter(|x| *x != k).collect();
        o.push(k);
        layouts.push((format!("child {} last", k), Layout { pdu_order: [o[0], o[1], o[2], o[3], o[4]], frame_order: [o[0], o[1], o[2], o[3], o[4]], indent: k % 2 == 0, ..Layout::default() }));
        let mut o2 = vec![k];
        o2.extend((0..5).filter(|x| *x != k));
        layouts.push((format!("child {} first", k), Layout { pdu_order: [o2[0], o2[1], o2[2], o2[3], o2[4]], frame_order: [o2[0], o2[1], o2[2], o2[3], o2[4]], indent: k % 2 == 1, ..Layout::default() }));
    }
    let take = tier.pick(8, layouts.len());
    for (name, l) in layouts.into_iter().take(take) {
        let d = render_doc(&base, &l).into_bytes();
        docs.push((format!("generated/{}", name), d, true));
    }
    // non-ASCII content (multi-byte characters in ids, names, texts), with and without a UTF-8 BOM:
    // byte offsets and character offsets differ, and every cut / corruption can split a character
    {
        let uni: Vec<Elem> = vec![
            Elem::Coding(Coding { id: "COD_é".into(), base_type: "A_UINT16".into() }),
            Elem::Signal(Signal { id: "SIG_€".into(), coding_ref: "COD_é".into() }),
            Elem::Pdu(pdu("Pß1", Desc::Text("Maß für Öl 😀 €".into()), &[("SIG_€", 1), ("S_UINT8", 0)])),
            Elem::Pdu(pdu("P😀", Desc::Text("ü".into()), &[("S_SINT32", 0)])),
            Elem::Frame(frame("ID_1", "främe €", &[("P😀", 1), ("Pß1", 0)], Some(manuf(Some("ÄPP"), Some("CTX€"), Some("T"), Some("I"))))),
        ];
        for (name, l) in [("unicode", Layout::default()), ("unicode, no indentation", Layout { indent: false, ..Layout::default() })] {
            let d = render_doc(&uni, &l).into_bytes();
            docs.push((format!("generated/{}", name), d.clone(), true));
            let mut with_bom = vec![0xEF, 0xBB, 0xBF];
            with_bom.extend_from_slice(&d);
            docs.push((format!("generated/{} with BOM", name), with_bom, true));
        }
        let mut with_bom = vec![0xEF, 0xBB, 0xBF];
        with_bom.extend_from_slice(render_doc(&base, &Layout::default()).as_bytes());
        docs.push(("generated/default with BOM".into(), with_bom, true));
    }
    // more than 20 instances in shuffled document order (sort implementations switch algorithm with
    // the length; a deleted or damaged SEQUENCE-NUMBER then meets a different code path)
    {
        let n = 26usize;
        let order: Vec<usize> = (0..n).map(|i| (i * 7 + 3) % n).collect();
        let sigs = ["S_UINT8", "S_SINT16", "S_FLOA32", "S_BOOL", "S_STRG_UTF8", "S_RAWD"];
        let mut elems: Vec<Elem> = vec![];
        let names: Vec<(&str, usize)> = order.iter().map(|r| (sigs[*r % sigs.len()], *r)).collect();
        elems.push(Elem::Pdu(pdu("PMANY", Desc::Text("many".into()), &names)));
        let ids: Vec<String> = (0..n).map(|r| format!("Q{}", r)).collect();
        for r in 0..n {
            elems.push(Elem::Pdu(pdu(&ids[r], Desc::Absent, &[(sigs[r % sigs.len()], 0)])));
        }
        let refs: Vec<(&str, usize)> = order.iter().map(|r| (ids[*r].as_str(), *r * 3)).collect();
        elems.push(Elem::Frame(frame("ID_77", "many", &refs, None)));
        elems.push(Elem::Frame(frame("ID_78", "few", &[("PMANY", 0)], None)));
        docs.push(("generated/26 shuffled instances".into(), render_doc(&elems, &Layout { indent: false, ..Layout::default() }).into_bytes(), false));
    }
    // frames only / pdus only / empty elements section
    docs.push(("generated/frame referencing nothing".into(), render_doc(&[Elem::Frame(frame("ID_9", "lonely", &[], None))], &Layout::default()).into_bytes(), true));
    docs.push(("generated/no elements".into(), render_doc(&[], &Layout::default()).into_bytes(), true));
    docs.into_iter()
        .map(|(name, doc, corrupt)| {
            let s = scan(&doc);
            let mut deletions: Vec<(usize, usize, &'static str)> = vec![];
            deletions.extend(s.elements.iter().map(|(a, b)| (*a, *b, "the element subtree")));
            deletions.extend(s.end_tags.iter().map(|(a, b)| (*a, *b, "the end tag")));
            deletions.extend(s.attributes.iter().map(|(a, b)| (*a, *b, "the attribute")));
            // value faults.  Attribute values: every value replaced by every other distinct
            // attribute value of the document (reference retargeting across element kinds, incl.
            // self references and cycles; duplicate ids), by the empty string and by an unknown id.
            // Element texts: replaced by hostile constants and by the other distinct texts.
            let mut substitutions: Vec<(usize, usize, Vec<u8>, &'static str)> = vec![];
            let big = doc.len() > 4096;
            let mut distinct: Vec<Vec<u8>> = vec![];
            for (a, b) in &s.attr_values {
                let v = doc[*a..*b].to_vec();
                if !distinct.contains(&v) && !v.starts_with(b"http") {
                    distinct.push(v);
                }
            }
            let consts: [&[u8]; 2] = [b"", b"NO_SUCH_ID"];
            for (a, b) in &s.attr_values {
                let cur = &doc[*a..*b];
                if cur.starts_with(b"http") {
                    continue;
                }
                for v in distinct.iter().map(|v| v.as_slice()).chain(consts.iter().copied()) {
                    if v != cur {
                        substitutions.push((*a, *b, v.to_vec(), "the attribute value"));
                    }
                }
            }
            let text_consts: [&[u8]; 22] = [b"18446744073709551615", b"9223372036854775808", b"18446744073709551614", b"-1", b"x", b"18446744073709551616", b"4294967296", b"1 2", b"&#0;", b"&bogus;", "\u{FF11}".as_bytes(), "2\u{B3}".as_bytes(), "\u{663}".as_bytes(), "\u{2167}".as_bytes(), "\u{BD}".as_bytes(), b" 1", b"1 ", b"+1", b"0x10", b"1e3", "\u{FF11}\u{FF12}".as_bytes(), "1\u{200B}".as_bytes()];
            let mut dtexts: Vec<Vec<u8>> = vec![];
            for (a, b) in &s.texts {
                let v = doc[*a..*b].to_vec();
                if !dtexts.contains(&v) && dtexts.len() < if big { 0 } else { 24 } {
                    dtexts.push(v);
                }
            }
            for (a, b) in &s.texts {
                let cur = &doc[*a..*b];
                for v in text_consts.iter().copied().chain(dtexts.iter().map(|v| v.as_slice())) {
                    if v != cur {
                        substitutions.push((*a, *b, v.to_vec(), "the element text"));
                    }
                }
            }
            // decoy attributes: an extra attribute inserted in front of every attribute, whose name is a
            // namespaced / prefixed / suffixed variant of the real one (or a plain unknown one)
            if !big {
                for (a, _b) in &s.attributes {
                    // the attribute range starts at the blank in front of the name
                    let name_end = doc[*a + 1..].iter().position(|c| *c == b'=').map(|p| *a + 1 + p).unwrap_or(*a + 1);
                    let name = String::from_utf8_lossy(&doc[*a + 1..name_end]).to_string();
                    let local = name.rsplit(':').next().unwrap_or("").to_string();
                    for decoy in [format!(" ext:O{}=\"decoy\"", local), format!(" x:{}=\"decoy\"", local), format!(" {}2=\"decoy\"", local), format!(" O{}=\"decoy\"", local), " unknown=\"1\"".to_string(), format!(" {}=\"duplicate\"", name)] {
                        substitutions.push((*a, *a, decoy.into_bytes(), "nothing (an attribute is INSERTED in front of this one)"));
                    }
                }
            }
            // one character of a value replaced by a 2-, 3- or 4-byte character, at every position of
            // the first 16 (char-boundary arithmetic on ids such as S_UINT32)
            if !big {
                for (a, b) in s.attr_values.iter().chain(s.texts.iter()) {
                    let cur = &doc[*a..*b];
                    if cur.starts_with(b"http") || !cur.is_ascii() {
                        continue;
                    }
                    for p in 0..cur.len().min(16) {
                        for ch in ["\u{162}", "\u{20AC}", "\u{1F600}"] {
                            let mut v = cur[..p].to_vec();
                            v.extend_from_slice(ch.as_bytes());
                            v.extend_from_slice(&cur[p + 1..]);
                            substitutions.push((*a, *b, v, "one character of the value"));
                        }
                    }
                }
            }
            DocFaults { name, doc, deletions, substitutions, corrupt }
        })
        .collect()
}

pub fn run(ctx: &Ctx) {
    ctx.enable_trace_pass(ctx.tier.pick(20000u64, 100000u64));
    ctx.set_rule("case = (document, fault) or a bad path list; faults: EVERY truncation offset of every document, deletion of every single element subtree / end tag / attribute, every attribute value replaced by every other distinct attribute value of the document (reference retargeting incl. self references and cycles, duplicate ids), by \"\" and by an unknown id, every element text replaced by hostile constants and by the other texts of the document, every byte replaced by each of '<' '>' '/' '\"' '&' ' ' NUL 0xFF, its low bit flipped and its case bit flipped; each case is one load in a worker process under a wall-clock deadline; non-trivial = the faulty content differs from the intact document");
    ctx.assume(&format!("hang detection by wall clock: a healthy load takes < 30 ms (measured maximum); deadline {:?}, and a case that misses it is re-run alone with {:?} before it is called a hang; the run stops after {} confirmed hangs", DEADLINE, SOLO_DEADLINE, MAX_HANGS));
    ctx.assume("every loop iteration in read_event/read_pdu/read_frame consumes input except at end of file, where quick-xml keeps answering Eof: a hang needs 'Eof reached inside an inner loop', and every (loop, cut point) pair is in the truncation space; loader state that depends on which elements were opened and closed before the cut is exercised by c12.nesting (misplaced complete elements, then every cut)");
    std::fs::create_dir_all(scratch_root()).ok();
    let docs = documents(ctx.tier);
    ctx.put("documents", json!(docs.iter().map(|d| json!({"name": d.name, "bytes": d.doc.len(), "structural_deletions": d.deletions.len(), "value_substitutions": d.substitutions.len(), "byte_corruption": d.corrupt})).collect::<Vec<_>>()));
    let mut bounds = vec![];
    let mut total = 0u64;
    for d in &docs {
        total += d.n_cases();
        bounds.push(total);
    }
    let (docs, bounds) = (&docs, &bounds);
    ctx.run_family(Family::new("c12.single_file_faults", total, format!("{} documents (the repository's two sample files + generated documents covering every element kind and layout): every truncation, every structural deletion, byte corruption", docs.len()), move |i, loc| {
        let s = bounds.partition_point(|b| *b <= i);
        let j = if s > 0 { i - bounds[s - 1] } else { i };
        let (content, what) = docs[s].case(j);
        let dir = thread_dir();
        let p = format!("{}/fault.xml", dir);
        std::fs::write(&p, &content).expect("write");
        loc.state(fnv64(&content), content != docs[s].doc);
        judge_paths(&[p], &what, json!({"what": what, "content": String::from_utf8_lossy(&content).chars().take(4000).collect::<String>()}), loc);
        loc.sample(|| json!({"fault": what}));
    }));
    // two-file loads where either file is faulty (every 5th truncation of the generated default doc)
    {
        let good = docs.iter().find(|d| d.name == "generated/default").map(|d| d.doc.clone()).unwrap_or_default();
        let gl = good.len() as u64;
        let good = &good;
        ctx.run_family(Family::new("c12.two_files", (gl + 1) * 2, "two-file loads (intact generated document + every truncation of it), faulty file first and faulty file second", move |i, loc| {
            let cut = (i / 2) as usize;
            let dir = thread_dir();
            let (pg, pf) = (format!("{}/good.xml", dir), format!("{}/faulty.xml", dir));
            std::fs::write(&pg, good).expect("write");
            std::fs::write(&pf, &good[..cut]).expect("write");
            let paths = if i % 2 == 0 { vec![pf.clone(), pg.clone()] } else { vec![pg.clone(), pf.clone()] };
            let what = format!("two files: intact generated document and its truncation at byte {} ({} first)", cut, if i % 2 == 0 { "faulty" } else { "intact" });
            loc.state(mix(cut as u64, i % 2 + 77), true);
            judge_paths(&paths, &what, json!({"what": what}), loc);
        }));
    }
    // repetition / nesting faults: N copies of a snippet at each structural position
    {
        let base = docs.iter().find(|d| d.name == "generated/default").map(|d| d.doc.clone()).unwrap_or_default();
        let anchors: Vec<&[u8]> = vec![b"<ho:DESC>", b"<ho:SHORT-NAME>", b"<fx:PDUS>", b"<fx:SEQUENCE-NUMBER>", b"<fx:FRAME ID=\"ID_1\">", b"<fx:ELEMENTS>", b"<fx:MANUFACTURER-EXTENSION>", b"<APPLICATION_ID>", b"<fx:SIGNAL-INSTANCES>", b"<fx:PDU ID=\"P1\"", b"</fx:FIBEX>"];
        let snippets: Vec<&[u8]> = vec![b"<!-- c -->", b"<x>", b"<x/>", b"<x></x>", b" \n", b"&amp;", b"<![CDATA[x]]>", b"<?pi v?>", b" a=\"b\"", b"</x>", b"<fx:PDU ID=\"Q\">"];
        let counts: Vec<usize> = match ctx.tier {
            Tier::Quick => vec![1, 2, 50, 3000, 200_000],
            Tier::Thorough => vec![1, 2, 3, 10, 50, 1000, 3000, 20_000, 200_000, 1_000_000],
        };
        let positions: Vec<usize> = anchors.iter().filter_map(|a| base.windows(a.len()).position(|w| w == *a).map(|p| p + a.len())).collect();
        let sp = Space::new(&[positions.len(), snippets.len(), counts.len()]);
        let s2 = sp.clone();
        let (base, positions, snippets, counts, anchors) = (&base, &positions, &snippets, &counts, &anchors);
        ctx.run_family(Family::new("c12.repetition", sp.size(), format!("the generated default document with N copies of a snippet inserted right after each of {} structural anchors (inside DESC / SHORT-NAME / SEQUENCE-NUMBER / APPLICATION_ID text, inside PDUS / FRAME / ELEMENTS / MANUFACTURER-EXTENSION / SIGNAL-INSTANCES, inside a start tag, after the root): snippets comment, unclosed element, empty element, element pair, whitespace, entity, CDATA, processing instruction, attribute, stray end tag, nested PDU start; N in {:?} (deep nesting / long runs: recursion and buffer growth)", positions.len(), counts), move |i, loc| {
            let c = s2.coords(i);
            let (pos, snip, n) = (positions[c[0]], snippets[c[1]], counts[c[2]]);
            let mut d = Vec::with_capacity(base.len() + snip.len() * n);
            d.extend_from_slice(&base[..pos]);
            for _ in 0..n {
                d.extend_from_slice(snip);
            }
            d.extend_from_slice(&base[pos..]);
            let dir = thread_dir();
            let p = format!("{}/rep.xml", dir);
            std::fs::write(&p, &d).expect("write");
            let what = format!("generated default document with {} x {:?} inserted after {:?} (byte {})", n, String::from_utf8_lossy(snip), String::from_utf8_lossy(anchors[c[0]]), pos);
            loc.state(i + 7_000_000, true);
            judge_paths(&[p], &what, json!({"what": what}), loc);
        }).chunk(1));
    }
    // attributes on the root element (the generated documents give it only namespace declarations)
    {
        let base = docs.iter().find(|d| d.name == "generated/default").map(|d| d.doc.clone()).unwrap_or_default();
        let names = ["VERSION", "fx:VERSION", "ho:VERSION", "xsi:schemaLocation", "ID"];
        let values = ["4", "3.1.0", "4.1", "", "3.x", "1.2.3.4", ".", "..", "4.", ".1", "-1", "18446744073709551616", "\u{FF14}.1", "3.1.0 ", "v4"];
        let sp = Space::new(&[names.len(), values.len()]);
        let s2 = sp.clone();
        let base = &base;
        ctx.run_family(Family::new("c12.root_attributes", sp.size(), format!("the generated document with one further attribute on the root element: names {:?} x values {:?}", names, values), move |i, loc| {
            let c = s2.coords(i);
            let at = base.windows(9).position(|w| w == b"<fx:FIBEX").map(|p| p + 9).unwrap_or(0);
            let mut d = base[..at].to_vec();
            d.extend_from_slice(format!(" {}=\"{}\"", names[c[0]], values[c[1]]).as_bytes());
            d.extend_from_slice(&base[at..]);
            let dir = thread_dir();
            let p = format!("{}/root.xml", dir);
            std::fs::write(&p, &d).expect("write");
            let what = format!("generated document whose root element carries {}=\"{}\"", names[c[0]], values[c[1]]);
            loc.state(i + 12_000_000, true);
            judge_paths(&[p], &what, json!({"what": what}), loc);
        }));
    }
    // many complete elements: loading time must stay proportionate (a load that re-reads the file or
    // re-scans a table per element takes minutes where a healthy one takes a fraction of a second)
    {
        let kinds: Vec<(&str, &str, String)> = vec![
            ("PDUs with an empty DESC", "fx:PDUS", "<fx:PDU ID=\"Q#\"><ho:SHORT-NAME>q#</ho:SHORT-NAME><ho:DESC></ho:DESC><fx:BYTE-LENGTH>0</fx:BYTE-LENGTH></fx:PDU>".into()),
            ("PDUs with a DESC and a signal", "fx:PDUS", "<fx:PDU ID=\"Q#\"><ho:SHORT-NAME>q#</ho:SHORT-NAME><ho:DESC>text #</ho:DESC><fx:BYTE-LENGTH>1</fx:BYTE-LENGTH><fx:SIGNAL-INSTANCES><fx:SIGNAL-INSTANCE ID=\"QI#\"><fx:SEQUENCE-NUMBER>0</fx:SEQUENCE-NUMBER><fx:SIGNAL-REF ID-REF=\"S_UINT8\"/></fx:SIGNAL-INSTANCE></fx:SIGNAL-INSTANCES></fx:PDU>".into()),
            ("PDUs with an empty-tag DESC and no BYTE-LENGTH text", "fx:PDUS", "<fx:PDU ID=\"Q#\"><ho:SHORT-NAME>q#</ho:SHORT-NAME><ho:DESC/><fx:BYTE-LENGTH>2</fx:BYTE-LENGTH></fx:PDU>".into()),
            ("FRAMEs with a manufacturer extension", "fx:FRAMES", "<fx:FRAME ID=\"ID_9#\"><ho:SHORT-NAME>f#</ho:SHORT-NAME><fx:BYTE-LENGTH>4</fx:BYTE-LENGTH><fx:PDU-INSTANCES><fx:PDU-INSTANCE ID=\"FI#\"><fx:PDU-REF ID-REF=\"P1\"/><fx:SEQUENCE-NUMBER>0</fx:SEQUENCE-NUMBER></fx:PDU-INSTANCE></fx:PDU-INSTANCES><fx:MANUFACTURER-EXTENSION><MESSAGE_TYPE>DLT_TYPE_LOG</MESSAGE_TYPE><MESSAGE_INFO>DLT_LOG_INFO</MESSAGE_INFO><APPLICATION_ID>A#</APPLICATION_ID><CONTEXT_ID>C#</CONTEXT_ID></fx:MANUFACTURER-EXTENSION></fx:FRAME>".into()),
            ("SIGNALs", "fx:SIGNALS", "<fx:SIGNAL ID=\"SG#\"><ho:SHORT-NAME>sg#</ho:SHORT-NAME><fx:CODING-REF ID-REF=\"COD_A\"/></fx:SIGNAL>".into()),
            ("CODINGs", "fx:CODINGS", "<fx:CODING ID=\"CD#\"><ho:SHORT-NAME>cd#</ho:SHORT-NAME><ho:CODED-TYPE ho:BASE-DATA-TYPE=\"A_UINT8\" CATEGORY=\"STANDARD-LENGTH-TYPE\"/></fx:CODING>".into()),
        ];
        let counts: Vec<usize> = ctx.tier.pick(vec![20_000usize], vec![20_000usize, 100_000]);
        let base = docs.iter().find(|d| d.name == "generated/no indentation").map(|d| d.doc.clone()).unwrap_or_default();
        let sp = Space::new(&[kinds.len(), counts.len()]);
        let s2 = sp.clone();
        let (kinds, counts, base) = (&kinds, &counts, &base);
        ctx.run_family(Family::new("c12.many_elements", sp.size(), format!("the generated document with N in {:?} further complete elements of one kind (PDUs with an empty / empty-tag / text DESC, FRAMEs with a manufacturer extension, SIGNALs, CODINGs; distinct ids) in their section: the load returns within the deadline (healthy: well under a second)", counts), move |i, loc| {
            let c = s2.coords(i);
            let (what, section, template) = &kinds[c[0]];
            let n = counts[c[1]];
            let close = format!("</{}>", section);
            let at = base.windows(close.len()).position(|w| w == close.as_bytes()).unwrap_or(base.len());
            let mut d = Vec::with_capacity(base.len() + n * (template.len() + 8));
            d.extend_from_slice(&base[..at]);
            for k in 0..n {
                d.extend_from_slice(template.replace('#', &k.to_string()).as_bytes());
            }
            d.extend_from_slice(&base[at..]);
            let dir = thread_dir();
            let p = format!("{}/many.xml", dir);
            std::fs::write(&p, &d).expect("write");
            let what = format!("generated document with {} further {} ({} bytes)", n, what, d.len());
            loc.state(i + 11_000_000, true);
            judge_paths(&[p], &what, json!({"what": what}), loc);
        }).chunk(1));
    }
    // misplaced complete elements x truncation: a COMPLETE element of each kind inserted after every
    // start tag and before every end tag of the default document (a PDU inside a FRAME, a FRAME inside
    // a PDU / an instance list / a manufacturer extension, ...), then the file cut at every tag
    // boundary (thorough: at every byte) from the insertion point on.  Loader state that tracks "the
    // open element" meets an end tag that is not its own, and then end of file.
    {
        let base_names: Vec<&str> = match ctx.tier {
            Tier::Quick => vec!["generated/no indentation"],
            Tier::Thorough => vec!["generated/no indentation", "generated/default", "generated/noise", "generated/refs as start/end, ref first", "generated/unicode"],
        };
        let snippets: Vec<(&str, &[u8])> = vec![
            ("PDU", b"<fx:PDU ID=\"PX\"><ho:SHORT-NAME>px</ho:SHORT-NAME><fx:BYTE-LENGTH>1</fx:BYTE-LENGTH><fx:PDU-TYPE>OTHER</fx:PDU-TYPE></fx:PDU>"),
            ("FRAME", b"<fx:FRAME ID=\"ID_77\"><ho:SHORT-NAME>fx</ho:SHORT-NAME><fx:BYTE-LENGTH>2</fx:BYTE-LENGTH><fx:FRAME-TYPE>OTHER</fx:FRAME-TYPE></fx:FRAME>"),
            ("SIGNAL", b"<fx:SIGNAL ID=\"SX\"><ho:SHORT-NAME>sx</ho:SHORT-NAME><fx:CODING-REF ID-REF=\"COD_A\"/></fx:SIGNAL>"),
            ("CODING", b"<fx:CODING ID=\"CX\"><ho:SHORT-NAME>cx</ho:SHORT-NAME><ho:CODED-TYPE ho:BASE-DATA-TYPE=\"A_UINT8\"/></fx:CODING>"),
            ("SIGNAL-INSTANCE", b"<fx:SIGNAL-INSTANCE ID=\"SIX\"><fx:SEQUENCE-NUMBER>7</fx:SEQUENCE-NUMBER><fx:SIGNAL-REF ID-REF=\"S_BOOL\"/></fx:SIGNAL-INSTANCE>"),
            ("PDU-INSTANCE", b"<fx:PDU-INSTANCE ID=\"PIX\"><fx:SEQUENCE-NUMBER>7</fx:SEQUENCE-NUMBER><fx:PDU-REF ID-REF=\"P3\"/></fx:PDU-INSTANCE>"),
            ("MANUFACTURER-EXTENSION", b"<fx:MANUFACTURER-EXTENSION><MESSAGE_TYPE>T</MESSAGE_TYPE><APPLICATION_ID>AX</APPLICATION_ID><CONTEXT_ID>CX</CONTEXT_ID></fx:MANUFACTURER-EXTENSION>"),
            ("PDU without BYTE-LENGTH", b"<fx:PDU ID=\"PY\"><ho:SHORT-NAME>py</ho:SHORT-NAME></fx:PDU>"),
            ("FRAME with PDU inside", b"<fx:FRAME ID=\"ID_78\"><ho:SHORT-NAME>fy</ho:SHORT-NAME><fx:BYTE-LENGTH>2</fx:BYTE-LENGTH><fx:PDU ID=\"PZ\"><ho:SHORT-NAME>pz</ho:SHORT-NAME><fx:BYTE-LENGTH>1</fx:BYTE-LENGTH></fx:PDU></fx:FRAME>"),
        ];
        let mut composed: Vec<(Vec<u8>, Vec<usize>, String)> = vec![];
        let mut n_points = 0usize;
        for base_name in &base_names {
        let base = docs.iter().find(|d| d.name == *base_name).map(|d| d.doc.clone()).unwrap_or_default();
        // insertion points: right after every start tag of a non-empty element, right before every end tag
        let mut points: Vec<usize> = vec![];
        {
            let mut i = 0;
            while i < base.len() {
                if base[i] == b'<' {
                    let end = base[i..].iter().position(|b| *b == b'>').map(|e| i + e + 1).unwrap_or(base.len());
                    let tag = &base[i..end];
                    if tag.starts_with(b"</") {
                        points.push(i);
                    } else if !tag.starts_with(b"<?") && !tag.starts_with(b"<!") && !tag.ends_with(b"/>") {
                        points.push(end);
                    }
                    i = end;
                } else {
                    i += 1;
                }
            }
            points.sort();
            points.dedup();
        }
        let every_byte = true;
        n_points += points.len();
        // per (point, snippet): the composed document and its cut offsets
        for p in &points {
            for (name, snip) in &snippets {
                let mut d = base[..*p].to_vec();
                d.extend_from_slice(snip);
                d.extend_from_slice(&base[*p..]);
                let cuts: Vec<usize> = (*p..=d.len()).filter(|c| every_byte || *c == d.len()).collect();
                let ctxt = String::from_utf8_lossy(&base[p.saturating_sub(30)..*p]).to_string();
                composed.push((d, cuts, format!("a complete {} element inserted into '{}' at byte {} (after {:?})", name, base_name, p, ctxt)));
            }
        }
        }
        let mut bounds = vec![];
        let mut total = 0u64;
        for (_, cuts, _) in &composed {
            total += cuts.len() as u64;
            bounds.push(total);
        }
        let (composed, bounds) = (&composed, &bounds);
        ctx.run_family(Family::new("c12.nesting", total, format!("{} generated document(s) {:?} with a COMPLETE element of each of {} kinds (PDU, FRAME, SIGNAL, CODING, SIGNAL-INSTANCE, PDU-INSTANCE, MANUFACTURER-EXTENSION, PDU without BYTE-LENGTH, FRAME holding a PDU) inserted at each of {} points (after every start tag, before every end tag), cut at EVERY byte from the insertion point to the end", base_names.len(), base_names, snippets.len(), n_points), move |i, loc| {
            let s = bounds.partition_point(|b| *b <= i);
            let j = if s > 0 { i - bounds[s - 1] } else { i };
            let (d, cuts, about) = &composed[s];
            let cut = cuts[j as usize];
            let dir = thread_dir();
            let p = format!("{}/nest.xml", dir);
            std::fs::write(&p, &d[..cut]).expect("write");
            let what = format!("generated document with {}, cut at byte {} of {}", about, cut, d.len());
            loc.state(fnv64(&d[..cut]), true);
            judge_paths(&[p], &what, json!({"what": what, "content": String::from_utf8_lossy(&d[..cut]).chars().take(4000).collect::<String>()}), loc);
        }));
    }
    // a multi-byte character at EVERY byte offset of a DESC text, in a document with duplicated PDU and
    // frame ids (the loader's diagnostics quote such texts; with the trace pass they are formatted)
    {
        let n = ctx.tier.pick(300usize, 1200usize);
        let chars = ["\u{B0}", "\u{20AC}", "\u{1F600}"];
        let sp = Space::new(&[n + 1, chars.len(), 2, 2]);
        let s2 = sp.clone();
        ctx.run_family(Family::new("c12.text_char_positions", sp.size(), format!("a document with a PDU id and a frame id defined twice whose first (winning) or second (discarded) definition's DESC / SHORT-NAME holds one 2-, 3- or 4-byte character at EVERY byte offset 0..={} of an ASCII text; loaded normally and (trace pass) with logging on", n), move |i, loc| {
            let c = s2.coords(i);
            let first_def = c[3] == 1;
            let mut t = "a".repeat(c[0]);
            t.push_str(chars[c[1]]);
            t.push_str(&"b".repeat(40));
            let mut elems: Vec<Elem> = vec![
                Elem::Pdu(pdu("P1", Desc::Text("first".into()), &[("S_UINT8", 0)])),
                Elem::Pdu(pdu("P1", Desc::Text(if c[2] == 0 { t.clone() } else { "second".into() }), &[("S_SINT16", 0)])),
                Elem::Frame(frame("ID_1", "first frame", &[("P1", 0)], None)),
                Elem::Frame(frame("ID_1", if c[2] == 1 { &t } else { "second frame" }, &[("P1", 0)], None)),
            ];
            if first_def {
                elems.swap(0, 1);
                elems.swap(2, 3);
            }
            let d = render_doc(&elems, &Layout { indent: c[0] % 2 == 0, ..Layout::default() }).into_bytes();
            let dir = thread_dir();
            let p = format!("{}/txt.xml", dir);
            std::fs::write(&p, &d).expect("write");
            let what = format!("duplicate PDU / frame ids, {} text of the {} definition with a {}-byte character at offset {}", if c[2] == 0 { "DESC" } else { "SHORT-NAME" }, if first_def { "first" } else { "second" }, chars[c[1]].len(), c[0]);
            loc.state(i + 9_000_000, true);
            judge_paths(&[p], &what, json!({"what": what}), loc);
        }).trace(100_000));
    }
    // bad paths
    {
        let dir0 = scratch_root();
        ctx.run_family(Family::new("c12.paths", 8, "nonexistent path, empty string, a directory, an empty file, an empty path list, a file of only whitespace, a binary file, a path with a NUL-free odd name", move |i, loc| {
            let dir = thread_dir();
            let empty = format!("{}/empty.xml", dir);
            std::fs::write(&empty, b"").expect("write");
            let ws = format!("{}/ws.xml", dir);
            std::fs::write(&ws, b" \n\t ").expect("write");
            let bin = format!("{}/bin.xml", dir);
            std::fs::write(&bin, (0..=255u8).cycle().take(4096).collect::<Vec<u8>>()).expect("write");
            let odd = format!("{}/odd name é€.xml", dir);
            std::fs::write(&odd, b"<a>").expect("write");
            let (paths, what): (Vec<String>, &str) = match i {
                0 => (vec![format!("{}/does-not-exist.xml", dir)], "nonexistent path"),
                1 => (vec![String::new()], "empty string as path"),
                2 => (vec![dir0.clone()], "a directory as path"),
                3 => (vec![empty], "an empty file"),
                4 => (vec![], "an empty path list"),
                5 => (vec![ws], "a whitespace-only file"),
                6 => (vec![bin], "a binary file"),
                _ => (vec![odd], "an unterminated element in a file with a non-ASCII name"),
            };
            loc.state(i + 1000, true);
            judge_paths(&paths, what, json!({"what": what}), loc);
        }).chunk(1));
    }
    WORKER.with(|w| *w.borrow_mut() = None);
    if CONFIRMED_HANGS.load(Ordering::Relaxed) >= MAX_HANGS {
        ctx.cap(format!("stopped loading after {} confirmed hangs: the remaining cases were skipped", MAX_HANGS));
    }
    cleanup_scratch();
}
