//! The message universe U (DESIGN.md 3.1): explicit finite alphabets per field and the families
//! (complete products over some dimensions around baselines) built from them.  Everything is
//! index-addressable so that families can be enumerated in parallel and replayed by index.

use crate::common::{Space, Tier};
use crate::refmodel::*;

pub fn ids(tier: Tier) -> Vec<&'static str> {
    match tier {
        Tier::Quick => vec!["", "A", "ABCD", "a€"],
        Tier::Thorough => vec!["", "A", "AB", "ABC", "ABCD", "é", "aé", "€", "a€", "😀"],
    }
}
pub const U32S: [u32; 5] = [0, 1, 0x0102_0304, 0x8000_0000, 0xFFFF_FFFF];

pub fn names(tier: Tier) -> Vec<&'static str> {
    match tier {
        Tier::Quick => vec!["", "n", "é"],
        Tier::Thorough => vec!["", "n", "name", "é"],
    }
}
pub fn units(tier: Tier) -> Vec<&'static str> {
    match tier {
        Tier::Quick => vec!["", "u"],
        Tier::Thorough => vec!["", "u", "unit"],
    }
}

pub fn all_kinds() -> Vec<RefKind> {
    let mut v = vec![RefKind::Bool];
    for n in [1u8, 2, 4, 8, 16] {
        v.push(RefKind::Sint(n));
    }
    for n in [1u8, 2, 4, 8, 16] {
        v.push(RefKind::Uint(n));
    }
    for n in [4u8, 8] {
        v.push(RefKind::SFix(n));
        v.push(RefKind::UFix(n));
        v.push(RefKind::Float(n));
    }
    v.push(RefKind::Str);
    v.push(RefKind::Raw);
    v
}

fn umax(n: u8) -> u128 {
    if n == 16 {
        u128::MAX
    } else {
        (1u128 << (8 * n as u32)) - 1
    }
}
fn byte_pattern(n: u8) -> u128 {
    // 0x0102..0n: byte-asymmetric so that a byte-order slip is visible
    let mut v = 0u128;
    for i in 1..=n {
        v = (v << 8) | i as u128;
    }
    v
}

pub const F32_BITS: [u32; 8] = [
    0x0000_0000, // 0.0
    0x8000_0000, // -0.0
    0x3FC0_0000, // 1.5
    0xFF80_0000, // -inf
    0x7FC1_2345, // quiet NaN with payload
    0x7F81_2345, // signalling NaN pattern
    0x0000_0001, // min subnormal
    0x7F7F_FFFF, // MAX
];
pub const F64_BITS: [u64; 8] = [
    0x0000_0000_0000_0000,
    0x8000_0000_0000_0000,
    0x3FF8_0000_0000_0000,
    0xFFF0_0000_0000_0000,
    0x7FF8_1234_5678_9ABC,
    0x7FF0_1234_5678_9ABC,
    0x0000_0000_0000_0001,
    0x7FEF_FFFF_FFFF_FFFF,
];

/// value alphabet of one kind
pub fn values_of(kind: RefKind, tier: Tier) -> Vec<RefValue> {
    let thorough = tier == Tier::Thorough;
    match kind {
        RefKind::Bool => [0u8, 1, 2, 0xFF].iter().map(|b| RefValue::Bool(*b)).collect(),
        RefKind::Uint(n) | RefKind::UFix(n) => {
            let mut v = vec![0, 1, umax(n), byte_pattern(n)];
            if thorough {
                v.push(umax(n) >> 1);
                v.push((umax(n) >> 1) + 1);
            }
            v.into_iter().map(|x| RefValue::U(x, n)).collect()
        }
        RefKind::Sint(n) | RefKind::SFix(n) => {
            let max = (umax(n) >> 1) as i128;
            let mut v = vec![0i128, 1, -1, max, -max - 1, byte_pattern(n) as i128];
            if thorough {
                v.push(-(byte_pattern(n) as i128));
                v.push(-2);
            }
            v.into_iter().map(|x| RefValue::I(x, n)).collect()
        }
        RefKind::Float(4) => {
            let k = if thorough { 8 } else { 6 };
            F32_BITS[..k].iter().map(|b| RefValue::F32(*b)).collect()
        }
        RefKind::Float(_) => {
            let k = if thorough { 8 } else { 6 };
            F64_BITS[..k].iter().map(|b| RefValue::F64(*b)).collect()
        }
        RefKind::Str => {
            let mut v = vec!["".to_string(), "a".to_string(), "hello".to_string(), "é€😀".to_string()];
            if thorough {
                v.push("x".repeat(255));
                v.push("y".repeat(1000));
            }
            v.into_iter().map(RefValue::Str).collect()
        }
        RefKind::Raw => {
            let mut v = vec![vec![], vec![0u8], vec![1, 2, 3], vec![0, 0, 0]];
            if thorough {
                v.push((0..300u32).map(|i| (i * 7) as u8).collect());
            }
            v.into_iter().map(RefValue::Raw).collect()
        }
    }
}
pub fn default_value(kind: RefKind) -> RefValue {
    match kind {
        RefKind::Bool => RefValue::Bool(1),
        RefKind::Uint(n) | RefKind::UFix(n) => RefValue::U(byte_pattern(n), n),
        RefKind::Sint(n) | RefKind::SFix(n) => RefValue::I(-(byte_pattern(n) as i128), n),
        RefKind::Float(4) => RefValue::F32(0x3FC0_0000),
        RefKind::Float(_) => RefValue::F64(0x3FF8_0000_0000_0000),
        RefKind::Str => RefValue::Str("hello".into()),
        RefKind::Raw => RefValue::Raw(vec![1, 2, 3]),
    }
}
pub fn is_numeric(kind: RefKind) -> bool {
    !matches!(kind, RefKind::Bool | RefKind::Str | RefKind::Raw)
}
pub fn is_fixp(kind: RefKind) -> bool {
    matches!(kind, RefKind::SFix(_) | RefKind::UFix(_))
}
pub const QUANT_BITS: [u32; 5] = [
    0x0000_0000, // 0.0
    0x3F80_0000, // 1.0
    0xBF00_0000, // -0.5
    0x7FC0_0001, // NaN
    0x7F80_0000, // inf
];
pub fn offsets_of(n: u8) -> Vec<i64> {
    if n == 4 {
        vec![0, -1, i32::MIN as i64, i32::MAX as i64, 0x0102_0304]
    } else {
        vec![0, -1, i64::MIN, i64::MAX, 0x0102_0304_0506_0708]
    }
}
pub fn default_fixp(kind: RefKind) -> Option<(u32, i64)> {
    match kind {
        RefKind::SFix(4) | RefKind::UFix(4) => Some((0x3F80_0000, 0x0102_0304)),
        RefKind::SFix(_) | RefKind::UFix(_) => Some((0xBF00_0000, -0x0102_0304_0506_0708)),
        _ => None,
    }
}

/// Build a well-formed argument (name/unit presence matches the variable-info flag and the kind).
pub fn mk_arg(kind: RefKind, vari: Option<(&str, &str)>, scod: u8, trai: bool, value: RefValue, fixp: Option<(u32, i64)>) -> RefArg {
    let (name, unit) = match vari {
        None => (None, None),
        Some((n, u)) => (Some(n.to_string()), if is_numeric(kind) { Some(u.to_string()) } else { None }),
    };
    RefArg {
        kind,
        vari: vari.is_some(),
        trai,
        scod,
        name,
        unit,
        fixp: if is_fixp(kind) { Some(fixp.or(default_fixp(kind)).unwrap()) } else { None },
        value,
    }
}

/// A_full: union of complete products per dimension group (DESIGN.md 3.1).
pub fn arg_full(tier: Tier) -> Vec<RefArg> {
    let mut out = vec![];
    let ns = names(tier);
    let us = units(tier);
    // (a) kind x variable-info shape x value alphabet
    for k in all_kinds() {
        let mut varis: Vec<Option<(&str, &str)>> = vec![None];
        for n in &ns {
            if is_numeric(k) {
                for u in &us {
                    varis.push(Some((*n, *u)));
                }
            } else {
                varis.push(Some((*n, "")));
            }
        }
        for v in &varis {
            for val in values_of(k, tier) {
                out.push(mk_arg(k, *v, 1, false, val, None));
            }
        }
    }
    // (b) kind x string coding x trace-info x variable info on/off x two values
    let scods: Vec<u8> = match tier {
        Tier::Quick => vec![0, 1, 2, 7],
        Tier::Thorough => (0..8).collect(),
    };
    for k in all_kinds() {
        for s in &scods {
            for trai in [false, true] {
                for v in [None, Some(("n", "u"))] {
                    let vals = values_of(k, tier);
                    for val in [vals[0].clone(), default_value(k)] {
                        out.push(mk_arg(k, v, *s, trai, val, None));
                    }
                }
            }
        }
    }
    // (c) fixed-point kinds x quantization x offset x values x variable info on/off
    for k in [RefKind::SFix(4), RefKind::UFix(4), RefKind::SFix(8), RefKind::UFix(8)] {
        let n = match k {
            RefKind::SFix(n) | RefKind::UFix(n) => n,
            _ => unreachable!(),
        };
        for q in QUANT_BITS {
            for off in offsets_of(n) {
                for val in values_of(k, tier) {
                    for v in [None, Some(("name", "unit"))] {
                        out.push(mk_arg(k, v, 0, false, val.clone(), Some((q, off))));
                    }
                }
            }
        }
    }
    // (d) long strings / raw data / names (length-prefix boundaries)
    let longs: Vec<usize> = match tier {
        Tier::Quick => vec![254, 255, 256, 4000],
        Tier::Thorough => vec![254, 255, 256, 257, 4000, 32767, 32768, 60000],
    };
    for l in longs {
        for v in [None, Some(("n", ""))] {
            out.push(mk_arg(RefKind::Str, v, 1, false, RefValue::Str("s".repeat(l)), None));
            out.push(mk_arg(RefKind::Raw, v, 0, false, RefValue::Raw((0..l).map(|i| (i % 251) as u8).collect()), None));
        }
        if l <= 4000 {
            let long_name = "N".repeat(l);
            out.push(mk_arg(RefKind::Uint(4), Some((&long_name, "u")), 0, false, RefValue::U(7, 4), None));
            out.push(mk_arg(RefKind::Uint(4), Some(("n", &long_name)), 0, false, RefValue::U(7, 4), None));
            out.push(mk_arg(RefKind::Bool, Some((&long_name, "")), 0, false, RefValue::Bool(1), None));
            out.push(mk_arg(RefKind::Str, Some((&long_name, "")), 0, false, RefValue::Str("v".into()), None));
        }
    }
    out
}

/// A_seq: one or two representatives per kind/width x variable info, for argument sequences.
pub fn arg_seq_alphabet(tier: Tier) -> Vec<RefArg> {
    let mut out = vec![];
    for k in all_kinds() {
        out.push(mk_arg(k, None, 0, false, default_value(k), None));
    }
    let with_vari: Vec<RefKind> = match tier {
        Tier::Quick => vec![RefKind::Bool, RefKind::Uint(2), RefKind::SFix(4), RefKind::Str, RefKind::Raw],
        Tier::Thorough => all_kinds(),
    };
    for k in with_vari {
        out.push(mk_arg(k, Some(("nm", "un")), 1, true, default_value(k), None));
    }
    if tier == Tier::Thorough {
        out.push(mk_arg(RefKind::Str, None, 1, false, RefValue::Str("".into()), None));
        out.push(mk_arg(RefKind::Raw, None, 0, false, RefValue::Raw(vec![]), None));
    }
    out
}

// ---------------------------------------------------------------------------------------------
// baseline messages
// ---------------------------------------------------------------------------------------------

pub fn ext(mstp: u8, mtin: u8, apid: &str, ctid: &str) -> RefExt {
    RefExt { verbose: false, noar: 0, mstp, mtin, apid: apid.to_string(), ctid: ctid.to_string() }
}
pub fn storage(secs: u32, micros: u32, ecu: &str) -> RefStorage {
    RefStorage { secs, micros, ecu: ecu.to_string() }
}

/// header shape selected by HTYP flag bits (UEH decided by `ext`), version 1
pub fn msg_with(htyp_flags: u8, version: u8, ext_h: Option<RefExt>, payload: RefPayload, st: Option<RefStorage>) -> RefMsg {
    normalize(RefMsg {
        storage: st,
        version,
        big: htyp_flags & 0x02 != 0,
        mcnt: 0x7F,
        ecu: if htyp_flags & 0x04 != 0 { Some("ECU1".into()) } else { None },
        session: if htyp_flags & 0x08 != 0 { Some(0x0102_0304) } else { None },
        timestamp: if htyp_flags & 0x10 != 0 { Some(0x0A0B_0C0D) } else { None },
        ext: ext_h,
        payload_len: 0,
        payload,
    })
}

/// The payload kind that a given (MSIN, has-ext) requires, filled with small fixed content.
pub fn payload_for(verbose: bool, mstp: Option<u8>, variant: usize) -> RefPayload {
    match (verbose, mstp) {
        (true, Some(MSTP_NW_TRACE)) => match variant % 3 {
            0 => RefPayload::NetworkTrace(vec![vec![1, 2, 3]]),
            1 => RefPayload::NetworkTrace(vec![]),
            _ => RefPayload::NetworkTrace(vec![vec![], vec![0xAA; 5]]),
        },
        (true, _) => match variant % 3 {
            0 => RefPayload::Verbose(vec![mk_arg(RefKind::Uint(4), None, 0, false, RefValue::U(0x0102_0304, 4), None)]),
            1 => RefPayload::Verbose(vec![]),
            _ => RefPayload::Verbose(vec![
                mk_arg(RefKind::Str, Some(("nm", "")), 1, false, RefValue::Str("hi".into()), None),
                mk_arg(RefKind::Sint(2), Some(("n", "u")), 0, true, RefValue::I(-2, 2), None),
            ]),
        },
        (false, Some(MSTP_CONTROL)) => match variant % 3 {
            0 => RefPayload::Control(0x11, vec![0, 1, 2]),
            1 => RefPayload::Control(1, vec![]),
            _ => RefPayload::Control(2, vec![0xFF; 9]),
        },
        (false, _) => match variant % 3 {
            0 => RefPayload::NonVerbose(0x0102_0304, vec![9, 8, 7]),
            1 => RefPayload::NonVerbose(0, vec![]),
            _ => RefPayload::NonVerbose(0xFFFF_FFFF, vec![0; 12]),
        },
    }
}

// ---------------------------------------------------------------------------------------------
// families
// ---------------------------------------------------------------------------------------------

pub struct MsgFamily {
    pub name: &'static str,
    pub about: String,
    pub size: u64,
    pub gen: Box<dyn Fn(u64) -> RefMsg + Sync + Send>,
}

fn st_opt(i: usize) -> Option<RefStorage> {
    match i {
        0 => None,
        _ => Some(storage(0x5D01_9346, 0x000E_3979, "STOR")),
    }
}

/// All families of U for a tier.  `with_big` families contain both byte orders.
pub fn universe(tier: Tier) -> Vec<MsgFamily> {
    let mut fams: Vec<MsgFamily> = vec![];

    // F1a: all 256 HTYP bytes (32 flag combinations x 8 versions) x payload variants x storage
    {
        let sp = Space::new(&[256, 3, 2, 2]);
        let s2 = sp.clone();
        fams.push(MsgFamily {
            name: "u.htyp",
            about: "all 256 HTYP bytes x 3 payload variants x {verbose,non-verbose when UEH} x storage header {absent,present}".into(),
            size: sp.size(),
            gen: Box::new(move |i| {
                let c = s2.coords(i);
                let htyp = c[0] as u8;
                let has_ext = htyp & 1 != 0;
                let verbose = has_ext && c[2] == 1;
                let e = if has_ext { Some(ext(MSTP_LOG, 4, "APP", "CTX")) } else { None };
                let p = payload_for(verbose, e.as_ref().map(|e| e.mstp), c[1]);
                msg_with(htyp & 0x1F, htyp >> 5, e, p, st_opt(c[3]))
            }),
        });
    }
    // F1b: id alphabets: header ecu x apid x ctid x storage ecu x byte order
    {
        let idv = ids(tier);
        let n = idv.len();
        let sp = Space::new(&[n, n, n, n, 2]);
        let s2 = sp.clone();
        fams.push(MsgFamily {
            name: "u.ids",
            about: format!("id alphabet {:?}: header ECU x APID x CTID x storage ECU x byte order", idv),
            size: sp.size(),
            gen: Box::new(move |i| {
                let c = s2.coords(i);
                let mut m = msg_with(
                    0x04 | if c[4] == 1 { 0x02 } else { 0 },
                    1,
                    Some(ext(MSTP_LOG, 2, idv[c[1]], idv[c[2]])),
                    payload_for(true, Some(MSTP_LOG), 0),
                    Some(storage(1, 2, idv[c[3]])),
                );
                m.ecu = Some(idv[c[0]].to_string());
                m
            }),
        });
    }
    // F1c: u32 fields: session x timestamp x storage seconds x microseconds x message id x byte order
    {
        let sp = Space::new(&[5, 5, 5, 5, 5, 2]);
        let s2 = sp.clone();
        fams.push(MsgFamily {
            name: "u.u32",
            about: "u32 alphabet {0,1,0x01020304,0x80000000,0xFFFFFFFF}: session x timestamp x storage seconds x microseconds x message id x byte order".into(),
            size: sp.size(),
            gen: Box::new(move |i| {
                let c = s2.coords(i);
                let mut m = msg_with(
                    0x18 | if c[5] == 1 { 0x02 } else { 0 },
                    1,
                    None,
                    RefPayload::NonVerbose(U32S[c[4]], vec![1]),
                    Some(storage(U32S[c[2]], U32S[c[3]], "E")),
                );
                m.session = Some(U32S[c[0]]);
                m.timestamp = Some(U32S[c[1]]);
                m
            }),
        });
    }
    // F1d: all 256 MSIN bytes x payload variants x byte order x MCNT
    {
        let sp = Space::new(&[256, 3, 2, 4]);
        let s2 = sp.clone();
        fams.push(MsgFamily {
            name: "u.msin",
            about: "all 256 MSIN bytes (type x sub-type x verbose) with the payload kind MSIN requires x 3 payload variants x byte order x MCNT {0,1,0x7F,0xFF}".into(),
            size: sp.size(),
            gen: Box::new(move |i| {
                let c = s2.coords(i);
                let msin = c[0] as u8;
                let (verbose, mstp, mtin) = (msin & 1 != 0, (msin >> 1) & 7, msin >> 4);
                let p = payload_for(verbose, Some(mstp), c[1]);
                let mut m = msg_with(0x04 | if c[2] == 1 { 0x02 } else { 0 }, 1, Some(ext(mstp, mtin, "AP", "CT")), p, None);
                m.mcnt = [0, 1, 0x7F, 0xFF][c[3]];
                m
            }),
        });
    }
    // F1e: every MSIN byte x the kind of the FIRST argument / the first payload bytes (a parser that
    // guesses the payload kind from content must never be fooled by a legitimate first field)
    {
        let kinds = all_kinds();
        let nk = kinds.len();
        let sp = Space::new(&[256, nk + 3, 2]);
        let s2 = sp.clone();
        fams.push(MsgFamily {
            name: "u.msin_first_field",
            about: format!("all 256 MSIN bytes x first field: for verbose messages one plain argument of each of the {} kinds (network trace: a slice starting with each of 3 type-info-like byte patterns), for non-verbose / control messages a message id / service id + data that look like type-info words (0x10, 0x21, 0x23, 0x43, 0x200, 0x400) x byte order", nk),
            size: sp.size(),
            gen: Box::new(move |i| {
                let c = s2.coords(i);
                let msin = c[0] as u8;
                let (verbose, mstp, mtin) = (msin & 1 != 0, (msin >> 1) & 7, msin >> 4);
                let big = c[2] == 1;
                let words: [u32; 6] = [0x10, 0x21, 0x23, 0x43, 0x200, 0x400];
                let w = words[c[1] % 6];
                let wb = if big { w.to_be_bytes() } else { w.to_le_bytes() };
                let p = match (verbose, mstp) {
                    (true, MSTP_NW_TRACE) => RefPayload::NetworkTrace(vec![wb.to_vec(), vec![c[1] as u8; c[1] % 4]]),
                    (true, _) => {
                        let k = kinds[c[1] % nk];
                        RefPayload::Verbose(vec![mk_arg(k, None, 0, false, default_value(k), None), mk_arg(RefKind::Uint(1), None, 0, false, RefValue::U(c[1] as u128, 1), None)])
                    }
                    (false, MSTP_CONTROL) => RefPayload::Control(wb[0], vec![wb[1], wb[2], wb[3], 1, 2]),
                    (false, _) => RefPayload::NonVerbose(w, wb.iter().chain(wb.iter()).cloned().collect()),
                };
                msg_with(if big { 0x02 } else { 0 }, 1, Some(ext(mstp, mtin, "AP", "CT")), p, None)
            }),
        });
    }
    // F2: single arguments: A_full x byte order x storage
    {
        let args = arg_full(tier);
        let n = args.len();
        let sp = Space::new(&[n, 2, 2]);
        let s2 = sp.clone();
        fams.push(MsgFamily {
            name: "u.single_arg",
            about: format!("A_full ({} single-argument variants: kind x variable-info shape x value; kind x coding x trace-info; fixed-point data; long strings/raw/names) x byte order x storage header", n),
            size: sp.size(),
            gen: Box::new(move |i| {
                let c = s2.coords(i);
                msg_with(
                    0x04 | if c[1] == 1 { 0x02 } else { 0 },
                    1,
                    Some(ext(MSTP_LOG, 4, "APP", "CTX")),
                    RefPayload::Verbose(vec![args[c[0]].clone()]),
                    st_opt(c[2]),
                )
            }),
        });
    }
    // F3: argument sequences up to depth d over A_seq
    {
        let alpha = arg_seq_alphabet(tier);
        let n = alpha.len() as u64;
        let depth = tier.pick(2u32, 3u32);
        // sizes of depth 0..=depth
        let mut total = 0u64;
        let mut bounds = vec![];
        for d in 0..=depth {
            total += n.pow(d);
            bounds.push(total);
        }
        fams.push(MsgFamily {
            name: "u.arg_seq",
            about: format!("all argument sequences of length 0..={} over A_seq ({} symbols) x byte order", depth, n),
            size: total * 2,
            gen: Box::new(move |i| {
                let big = i % 2 == 1;
                let mut j = i / 2;
                let mut d = 0;
                while j >= bounds[d] {
                    d += 1;
                }
                if d > 0 {
                    j -= bounds[d - 1];
                }
                let mut args = vec![];
                for _ in 0..d {
                    args.push(alpha[(j % n) as usize].clone());
                    j /= n;
                }
                msg_with(if big { 0x02 } else { 0 }, 1, Some(ext(MSTP_APP_TRACE, 1, "A", "C")), RefPayload::Verbose(args), None)
            }),
        });
    }
    if tier == Tier::Thorough {
        // depth 4 over a 12-symbol subset
        let all = arg_seq_alphabet(tier);
        let alpha: Vec<RefArg> = all.iter().step_by(all.len() / 12).take(12).cloned().collect();
        let n = alpha.len() as u64;
        fams.push(MsgFamily {
            name: "u.arg_seq4",
            about: format!("all argument sequences of length 4 over a {}-symbol subset of A_seq x byte order", n),
            size: n.pow(4) * 2,
            gen: Box::new(move |i| {
                let big = i % 2 == 1;
                let mut j = i / 2;
                let mut args = vec![];
                for _ in 0..4 {
                    args.push(alpha[(j % n) as usize].clone());
                    j /= n;
                }
                msg_with(if big { 0x02 } else { 0 }, 1, Some(ext(MSTP_LOG, 1, "A", "C")), RefPayload::Verbose(args), None)
            }),
        });
    }
    // F4: non-verbose / control payload shapes
    {
        let datas: Vec<Vec<u8>> = vec![vec![], vec![0], vec![1, 2, 3], (0..300u32).map(|i| i as u8).collect()];
        let sp = Space::new(&[5, datas.len(), 3, 2, 2]);
        let s2 = sp.clone();
        fams.push(MsgFamily {
            name: "u.nonverbose_control",
            about: "message id / service id alphabet x payload data {[],[0],[1,2,3],300 bytes} x {no ext header, ext non-verbose log, ext control} x byte order x storage".into(),
            size: sp.size(),
            gen: Box::new(move |i| {
                let c = s2.coords(i);
                let flags = if c[3] == 1 { 0x02 } else { 0 } | 0x10;
                let d = datas[c[1]].clone();
                match c[2] {
                    0 => msg_with(flags, 1, None, RefPayload::NonVerbose(U32S[c[0]], d), st_opt(c[4])),
                    1 => msg_with(flags, 1, Some(ext(MSTP_LOG, 3, "APP", "CTX")), RefPayload::NonVerbose(U32S[c[0]], d), st_opt(c[4])),
                    _ => msg_with(flags, 1, Some(ext(MSTP_CONTROL, 2, "APP", "CTX")), RefPayload::Control([0u8, 1, 2, 0x11, 0xFF][c[0]], d), st_opt(c[4])),
                }
            }),
        });
    }
    // F5: network trace slice lists up to depth 3
    {
        let slices: Vec<Vec<u8>> = vec![vec![], vec![0], vec![1, 2, 3], (0..300u32).map(|i| (i * 3) as u8).collect()];
        let n = slices.len() as u64;
        let total: u64 = 1 + n + n * n + n * n * n;
        fams.push(MsgFamily {
            name: "u.network_trace",
            about: "all slice lists of length 0..=3 over {[],[0],[1,2,3],300 bytes} x byte order x 2 network-trace sub-types".into(),
            size: total * 4,
            gen: Box::new(move |i| {
                let big = i % 2 == 1;
                let mtin = if (i / 2) % 2 == 1 { 9 } else { 2 };
                let mut j = i / 4;
                let mut d = 0u32;
                let mut acc = 1u64;
                while j >= acc {
                    j -= acc;
                    d += 1;
                    acc = n.pow(d);
                }
                let mut v = vec![];
                for _ in 0..d {
                    v.push(slices[(j % n) as usize].clone());
                    j /= n;
                }
                msg_with(if big { 0x02 } else { 0 } | 0x04, 1, Some(ext(MSTP_NW_TRACE, mtin, "NW", "TR")), RefPayload::NetworkTrace(v), None)
            }),
        });
    }
    // F6: boundary lengths: total length 65535 / 65534 for each payload kind; NOAR = 255
    {
        let sp = Space::new(&[6, 2, 2, 2]);
        let s2 = sp.clone();
        fams.push(MsgFamily {
            name: "u.boundary",
            about: "total length exactly 65535 and 65534 for verbose string / verbose raw / non-verbose / control / network trace, and NOAR = 255; x byte order x storage".into(),
            size: sp.size(),
            gen: Box::new(move |i| {
                let c = s2.coords(i);
                let total = 65535 - c[1];
                let flags = if c[2] == 1 { 0x02 } else { 0 };
                let st = st_opt(c[3]);
                // headers: 4 (+10 with ext)
                match c[0] {
                    0 => {
                        // verbose string: 14 headers + 4 type info + 2 len + n + 1
                        let n = total - 14 - 7;
                        msg_with(flags, 1, Some(ext(MSTP_LOG, 4, "A", "C")), RefPayload::Verbose(vec![mk_arg(RefKind::Str, None, 1, false, RefValue::Str("z".repeat(n)), None)]), st)
                    }
                    1 => {
                        let n = total - 14 - 6;
                        msg_with(flags, 1, Some(ext(MSTP_LOG, 4, "A", "C")), RefPayload::Verbose(vec![mk_arg(RefKind::Raw, None, 0, false, RefValue::Raw(vec![0x5A; n]), None)]), st)
                    }
                    2 => msg_with(flags, 1, None, RefPayload::NonVerbose(7, vec![0xA5; total - 4 - 4]), st),
                    3 => msg_with(flags, 1, Some(ext(MSTP_CONTROL, 1, "A", "C")), RefPayload::Control(3, vec![0x11; total - 14 - 1]), st),
                    4 => msg_with(flags, 1, Some(ext(MSTP_NW_TRACE, 1, "A", "C")), RefPayload::NetworkTrace(vec![vec![0x77; total - 14 - 6]]), st),
                    _ => {
                        // NOAR = 255 (254 when c[1]==1) bool arguments
                        let k = 255 - c[1];
                        let args = (0..k).map(|j| mk_arg(RefKind::Bool, None, 0, false, RefValue::Bool((j % 2) as u8), None)).collect();
                        msg_with(flags, 1, Some(ext(MSTP_LOG, 4, "A", "C")), RefPayload::Verbose(args), st)
                    }
                }
            }),
        });
    }
    // F7: the storage-header pattern "DLT\x01" embedded in every place where a message may
    // legitimately carry arbitrary bytes (payloads, ids, u32 fields, strings, names): parsing,
    // cutting, resync and re-serialisation must treat it as content, never as a header.
    {
        let pat: Vec<u8> = b"DLT\x01".to_vec();
        let pat_s = "DLT\u{1}";
        let sp = Space::new(&[embedded_pattern_positions(), 2, 2]);
        let s2 = sp.clone();
        fams.push(MsgFamily {
            name: "u.embedded_pattern",
            about: "the 4-byte storage pattern 'DLT\\x01' embedded at each content position (non-verbose / control / raw / string / network-trace data at start, middle, end and twice; variable name and unit; ECU / application / context / storage ids; session id, timestamp, message id, storage seconds and microseconds) x byte order x storage header".into(),
            size: sp.size(),
            gen: Box::new(move |i| {
                let c = s2.coords(i);
                embedded_pattern_message(c[0], c[1] == 1, st_opt(c[2]), &pat, pat_s)
            }),
        });
    }
    // F7b: messages whose STANDARD HEADER begins with the DLT magic numbers: 'DLS\x01' (the serial
    // header pattern) and 'DLT\x01' (the storage pattern) are legal header bytes: version 2, WEID,
    // counter 'L', length 0x5301 / 0x5401.
    {
        let sp = Space::new(&[2, 4, 2]);
        let s2 = sp.clone();
        fams.push(MsgFamily {
            name: "u.magic_prefix",
            about: "messages whose first four header bytes are 'DLS\\x01' or 'DLT\\x01' (HTYP 0x44: version 2 + ECU id, MCNT 'L', LEN 0x5301 / 0x5401) x ECU id {ECU1, '$ECU' (looks like a nested header), 'DLS\\x01', ''} x storage header".into(),
            size: sp.size(),
            gen: Box::new(move |i| {
                let c = s2.coords(i);
                let total: usize = if c[0] == 0 { 0x5301 } else { 0x5401 };
                let mut m = msg_with(0x04, 2, None, RefPayload::NonVerbose(0x0102_0304, (0..total - 8 - 4).map(|k| (k % 251) as u8).collect()), st_opt(c[2]));
                m.mcnt = b'L';
                m.ecu = Some(["ECU1", "$ECU", "DLS\u{1}", ""][c[1]].to_string());
                normalize(m)
            }),
        });
    }
    // F8: length sweeps -- every length (not only round boundary values) of every length-prefixed
    // or length-derived field
    {
        let lens = sweep_lengths(tier);
        let nl = lens.len();
        let sp = Space::new(&[LEN_SWEEP_KINDS, nl, 2]);
        let s2 = sp.clone();
        fams.push(MsgFamily {
            name: "u.len_sweep",
            about: format!("{} field kinds (verbose string, verbose raw, variable name, unit, non-verbose payload, control payload, network-trace slice, string+following argument, string of 2-byte characters, string of 3-byte characters at an odd offset) x {} lengths ({}) x byte order; lengths above the field's maximum are clamped to it", LEN_SWEEP_KINDS, nl, sweep_lengths_about(tier)),
            size: sp.size(),
            gen: Box::new(move |i| {
                let c = s2.coords(i);
                len_sweep_message(c[0], lens[c[1]], c[2] == 1)
            }),
        });
    }
    // F9: count sweeps -- every argument count / slice count 0..=255
    {
        let alpha = arg_seq_alphabet(Tier::Thorough);
        let sp = Space::new(&[6, 256, 2]);
        let s2 = sp.clone();
        fams.push(MsgFamily {
            name: "u.count_sweep",
            about: "every NOAR 0..=255: n bool arguments / n arguments cycling through all kinds of A_seq / n network-trace slices of varying sizes / n uint32 arguments whose string coding and trace-info bits differ from argument to argument / n sint16 likewise with variable info on every 5th / n float64 of varying values; x byte order".into(),
            size: sp.size(),
            gen: Box::new(move |i| {
                let c = s2.coords(i);
                let n = c[1];
                let fl = if c[2] == 1 { 0x02 } else { 0 };
                match c[0] {
                    0 => msg_with(fl, 1, Some(ext(MSTP_LOG, 4, "A", "C")), RefPayload::Verbose((0..n).map(|j| mk_arg(RefKind::Bool, None, 0, false, RefValue::Bool((j % 2) as u8), None)).collect()), None),
                    1 => msg_with(fl | 0x04, 1, Some(ext(MSTP_LOG, 2, "AP", "CT")), RefPayload::Verbose((0..n).map(|j| alpha[(j * 7 + n) % alpha.len()].clone()).collect()), None),
                    2 => msg_with(fl, 1, Some(ext(MSTP_NW_TRACE, 3, "NW", "TR")), RefPayload::NetworkTrace((0..n).map(|j| vec![j as u8; (j * 3 + n) % 6]).collect()), None),
                    // homogeneous runs whose per-argument type-info bits differ (SCOD, TRAI, VARI)
                    3 => msg_with(fl, 1, Some(ext(MSTP_LOG, 4, "A", "C")), RefPayload::Verbose((0..n).map(|j| mk_arg(RefKind::Uint(4), None, [0u8, 0, 2, 0, 1, 7, 0, 3][(j + n) % 8], j % 3 == 1, RefValue::U(0x0102_0304 ^ j as u128, 4), None)).collect()), None),
                    4 => msg_with(fl, 1, Some(ext(MSTP_LOG, 4, "A", "C")), RefPayload::Verbose((0..n).map(|j| mk_arg(RefKind::Sint(2), if j % 5 == 4 { Some(("n", "u")) } else { None }, ((j * 3) % 8) as u8, j % 4 == 3, RefValue::I(-(j as i128) - 1, 2), None)).collect()), None),
                    _ => msg_with(fl, 1, Some(ext(MSTP_LOG, 4, "A", "C")), RefPayload::Verbose((0..n).map(|j| mk_arg(RefKind::Float(8), None, 0, j == n / 2, RefValue::F64(0x3FF0_0000_0000_0000 + j as u64 * 0x0001_0203_0405), None)).collect()), None),
                }
            }),
        });
    }
    // F10: value sweeps -- bit-level coverage of every value field
    {
        let args = value_sweep_args(tier);
        let na = args.len();
        let sp = Space::new(&[na, 2]);
        let s2 = sp.clone();
        fams.push(MsgFamily {
            name: "u.value_sweep",
            about: format!("{} single-argument messages: all 256 values of bool / 8-bit kinds, 16-bit kinds over all low bytes x high byte set (all 65536 thorough), walking ones / walking zeros / one-hot bytes of every 32..128-bit kind, every f32 exponent and f64 exponent (strided in quick) x 4 mantissas x sign, fixed-point quantization exponent sweep and offset walking bits; x byte order", na),
            size: sp.size(),
            gen: Box::new(move |i| {
                let c = s2.coords(i);
                msg_with(if c[1] == 1 { 0x02 } else { 0 }, 1, Some(ext(MSTP_LOG, 4, "APP", "CTX")), RefPayload::Verbose(vec![args[c[0]].clone()]), None)
            }),
        });
        // header fields: MCNT all 256; walking bits of session id, timestamp, message id, storage seconds / microseconds
        let sp = Space::new(&[6, 64, 2]);
        let s2 = sp.clone();
        fams.push(MsgFamily {
            name: "u.header_value_sweep",
            about: "MCNT all 256 values (4 x 64); walking ones and walking zeros (64 patterns) of session id, timestamp, message id, storage-header seconds and microseconds; x byte order".into(),
            size: sp.size(),
            gen: Box::new(move |i| {
                let c = s2.coords(i);
                let fl = if c[2] == 1 { 0x02 } else { 0 };
                let w = if c[1] < 32 { 1u32 << c[1] } else { !(1u32 << (c[1] - 32)) };
                let mut m = msg_with(fl | 0x18, 1, None, RefPayload::NonVerbose(0x0102_0304, vec![1]), Some(storage(3, 4, "E")));
                match c[0] {
                    0 => m.session = Some(w),
                    1 => m.timestamp = Some(w),
                    2 => m.payload = RefPayload::NonVerbose(w, vec![1]),
                    3 => m.storage = Some(storage(w, 4, "E")),
                    4 => m.storage = Some(storage(3, w, "E")),
                    _ => m.mcnt = c[1] as u8,
                }
                if c[0] == 5 {
                    // 4 x 64 = all 256 counter values over both byte orders x two header shapes
                    m.mcnt = (c[1] as u8) | if c[2] == 1 { 0x40 } else { 0 } | if i % 2 == 1 { 0x80 } else { 0 };
                }
                normalize(m)
            }),
        });
    }
    // F10b: network-trace slice-length tuples and argument-length tuples (heterogeneous sequences)
    {
        let lens: [usize; 5] = [0, 1, 2, 4, 6];
        let mut bounds = vec![];
        let mut total = 0u64;
        for k in 0..=5u32 {
            total += 5u64.pow(k);
            bounds.push(total);
        }
        fams.push(MsgFamily {
            name: "u.length_tuples",
            about: "ALL tuples of 0..=5 lengths over {0,1,2,4,6}: as network-trace slices, and as verbose arguments alternating raw / string (string / raw in the other byte order); x byte order".into(),
            size: total * 4,
            gen: Box::new(move |i| {
                let big = i % 2 == 1;
                let as_args = (i / 2) % 2 == 1;
                let mut j = i / 4;
                let mut k = 0usize;
                while j >= bounds[k] {
                    k += 1;
                }
                if k > 0 {
                    j -= bounds[k - 1];
                }
                let mut ls = vec![];
                for _ in 0..k {
                    ls.push(lens[(j % 5) as usize]);
                    j /= 5;
                }
                let fl = if big { 0x02 } else { 0 };
                if as_args {
                    let args = ls.iter().enumerate().map(|(q, l)| if (q % 2 == 0) != big { mk_arg(RefKind::Raw, None, 0, false, RefValue::Raw((0..*l).map(|b| (b + q) as u8).collect()), None) } else { mk_arg(RefKind::Str, None, 1, false, RefValue::Str("xyzuvw"[..*l].to_string()), None) }).collect();
                    msg_with(fl, 1, Some(ext(MSTP_LOG, 4, "A", "C")), RefPayload::Verbose(args), None)
                } else {
                    msg_with(fl, 1, Some(ext(MSTP_NW_TRACE, 2, "NW", "TR")), RefPayload::NetworkTrace(ls.iter().enumerate().map(|(q, l)| vec![(q * 16 + l) as u8; *l]).collect()), None)
                }
            }),
        });
    }
    // F10c: one multi-byte character at EVERY byte offset of a text field: string values in both
    // codings, variable names, units; plus the offsets around every multiple of 1 KiB up to the
    // maximum (block-wise validators, fixed-size previews)
    {
        let chars = ['é', '€', '😀'];
        // (field, n): field 0 = UTF8-coded string, 1 = ASCII-coded string, 2 = name, 3 = unit
        let dense: Vec<(usize, usize)> = vec![(0, 8300), (1, tier.pick(1300, 8300)), (2, tier.pick(700, 4200)), (3, tier.pick(700, 4200))];
        let mut cases: Vec<(usize, usize, usize)> = vec![]; // (field, total ascii length, offset)
        for (f, n) in &dense {
            for o in 0..=*n {
                cases.push((*f, *n, o));
            }
        }
        // long strings: offsets -4..=4 around every multiple of 1024
        for f in [0usize, 1] {
            let n = 65_400usize;
            let mut k = 1024usize;
            while k < n {
                for d in 0..9usize {
                    cases.push((f, n, k + d - 4));
                }
                k += 1024;
            }
        }
        let nc = cases.len();
        let sp = Space::new(&[nc, chars.len()]);
        let s2 = sp.clone();
        fams.push(MsgFamily {
            name: "u.char_position_sweep",
            about: format!("one 2-, 3- or 4-byte character inserted at EVERY byte offset of an ASCII text: UTF8-coded string of 8300 bytes, ASCII-coded string of {} bytes, variable name and unit of {} bytes each; and at the 9 offsets around every multiple of 1024 of 65400-byte strings in both codings ({} (field, offset) cases x 3 characters)", dense[1].1, dense[2].1, nc),
            size: sp.size(),
            gen: Box::new(move |i| {
                let c = s2.coords(i);
                let (f, n, o) = cases[c[0]];
                let mut t = String::with_capacity(n + 4);
                t.push_str(&"a".repeat(o));
                t.push(chars[c[1]]);
                t.push_str(&"b".repeat(n - o));
                let fl = if o % 2 == 1 { 0x02 } else { 0 };
                let e = Some(ext(MSTP_LOG, 4, "APP", "CTX"));
                let arg = match f {
                    0 => mk_arg(RefKind::Str, None, 1, false, RefValue::Str(t), None),
                    1 => mk_arg(RefKind::Str, None, 0, false, RefValue::Str(t), None),
                    2 => mk_arg(RefKind::Uint(4), Some((&t, "u")), 0, false, RefValue::U(0x0102_0304, 4), None),
                    _ => mk_arg(RefKind::Sint(2), Some(("n", &t)), 0, false, RefValue::I(-2, 2), None),
                };
                msg_with(fl, 1, e, RefPayload::Verbose(vec![arg]), None)
            }),
        });
    }
    // F10d: all ordered pairs of "special" characters as adjacent string content
    {
        let mut sp_chars: Vec<char> = (1u32..=31).filter_map(char::from_u32).collect();
        sp_chars.extend([' ', '"', '&', '<', '>', '\\', '%', '{', '}', '\u{7F}', '\u{80}', '\u{85}', '\u{A0}', '\u{AD}', '\u{2028}', '\u{2029}', '\u{200B}', '\u{200D}', '\u{FEFF}', '\u{FFFD}', '\u{FFFE}', '\u{FFFF}', '\u{E000}', '\u{10FFFF}', 'a', 'Z', '0', 'é', '€', '😀', '\u{0301}', '\u{D7FF}']);
        let n = sp_chars.len();
        let sp = Space::new(&[n, n, 2]);
        let s2 = sp.clone();
        fams.push(MsgFamily {
            name: "u.char_pairs",
            about: format!("ALL ordered pairs over {} special characters (every ASCII control character, markup and escape characters, line / paragraph separators, zero-width and BOM / replacement / non-characters, combining mark, range ends) as adjacent string content, as the whole string and between letters; UTF8 and ASCII coding alternate", n),
            size: sp.size(),
            gen: Box::new(move |i| {
                let c = s2.coords(i);
                let pair: String = [sp_chars[c[0]], sp_chars[c[1]]].iter().collect();
                let t = if c[2] == 0 { pair } else { format!("x{}y", pair) };
                msg_with(if c[0] % 2 == 1 { 0x02 } else { 0 }, 1, Some(ext(MSTP_LOG, 4, "APP", "CTX")), RefPayload::Verbose(vec![mk_arg(RefKind::Str, if c[1] % 3 == 0 { Some(("n", "")) } else { None }, (c[1] % 2) as u8, false, RefValue::Str(t), None)]), None)
            }),
        });
    }
    // F11: character sweep -- every Unicode scalar value as text content
    {
        let dense_positions: usize = if tier == Tier::Thorough { CHAR_POSITIONS } else { 1 };
        let scalars: u64 = 0x11_0000 - 0x800 - 1; // without NUL and the surrogates
        let sparse: Vec<u32> = (1u32..0x11_0000).filter(|c| char::from_u32(*c).is_some() && (*c < 0x3000 || *c % 61 == 0 || (0xFE00..=0xFFFF).contains(c) || *c >= 0x10_FF00)).collect();
        let nsparse = sparse.len() as u64;
        let dense_size = scalars * 2 * dense_positions as u64;
        let sparse_size = nsparse * 2 * (CHAR_POSITIONS - dense_positions) as u64;
        fams.push(MsgFamily {
            name: "u.chars",
            about: format!("EVERY Unicode scalar value (U+0001..U+10FFFF without surrogates) as first and as last character of a UTF8-coded string argument{}; x byte order alternating", if tier == Tier::Thorough { ", of an ASCII-coded string argument, a variable name, a unit, and as the whole application id / context id / header ECU id / storage ECU id".to_string() } else { format!("; for an ASCII-coded string argument, a variable name, a unit and the application / context / ECU / storage ECU ids: {} scalars (all below U+3000, every 61st above, U+FE00..U+FFFF, the last 256)", nsparse) }),
            size: dense_size + sparse_size,
            gen: Box::new(move |i| {
                let (pos, code, variant) = if i < dense_size {
                    let per = scalars * 2;
                    let pos = (i / per) as usize;
                    let j = i % per;
                    let k = (j / 2) as u32 + 1; // 1..=scalars
                    let code = if k >= 0xD800 { k + 0x800 } else { k };
                    (pos, code, j % 2)
                } else {
                    let j = i - dense_size;
                    let per = nsparse * 2;
                    let pos = dense_positions + (j / per) as usize;
                    let j = j % per;
                    (pos, sparse[(j / 2) as usize], j % 2)
                };
                char_message(pos, char::from_u32(code).expect("scalar"), variant == 1, code % 2 == 1)
            }),
        });
    }
    fams
}

pub const CHAR_POSITIONS: usize = 8;
/// One message with character `c` at text position `pos`.
pub fn char_message(pos: usize, c: char, last: bool, big: bool) -> RefMsg {
    let fl = if big { 0x02 } else { 0 };
    let text = if last { format!("ab{}", c) } else { format!("{}ab", c) };
    let id: String = c.to_string(); // at most 4 bytes
    let e_log = || Some(ext(MSTP_LOG, 4, "APP", "CTX"));
    let u4 = || RefValue::U(0x0102_0304, 4);
    match pos {
        0 => msg_with(fl, 1, e_log(), RefPayload::Verbose(vec![mk_arg(RefKind::Str, None, 1, false, RefValue::Str(text), None)]), None),
        1 => msg_with(fl, 1, e_log(), RefPayload::Verbose(vec![mk_arg(RefKind::Str, None, 0, false, RefValue::Str(text), None)]), None),
        2 => msg_with(fl, 1, e_log(), RefPayload::Verbose(vec![mk_arg(RefKind::Uint(4), Some((&text, "u")), 0, false, u4(), None)]), None),
        3 => msg_with(fl, 1, e_log(), RefPayload::Verbose(vec![mk_arg(RefKind::Uint(4), Some(("n", &text)), 0, false, u4(), None)]), None),
        4 => msg_with(fl, 1, Some(ext(MSTP_LOG, 4, &id, "CTX")), payload_for(true, Some(MSTP_LOG), 0), None),
        5 => msg_with(fl, 1, Some(ext(MSTP_LOG, 4, "APP", &id)), payload_for(false, Some(MSTP_LOG), 0), None),
        6 => {
            let mut m = msg_with(fl | 0x04, 1, None, RefPayload::NonVerbose(1, vec![2]), None);
            m.ecu = Some(id);
            m
        }
        _ => msg_with(fl, 1, None, RefPayload::NonVerbose(1, vec![2]), Some(storage(1, 2, &id))),
    }
}

pub const LEN_SWEEP_KINDS: usize = 10;
pub fn sweep_lengths(tier: Tier) -> Vec<usize> {
    let mut v: Vec<usize> = match tier {
        Tier::Quick => (0..=1100).collect(),
        Tier::Thorough => (0..=9000).collect(),
    };
    for k in 11..=16u32 {
        for d in -3i64..=3 {
            v.push(((1i64 << k) + d) as usize);
        }
    }
    for x in [4000usize, 10_000, 30_000, 60_000, 65_000] {
        v.push(x);
    }
    for d in 0..40usize {
        v.push(65_535 - d);
    }
    if tier == Tier::Thorough {
        let mut x = 9001usize;
        while x < 65_536 {
            v.push(x);
            x += 13;
        }
    }
    v.sort_unstable();
    v.dedup();
    v
}
pub fn sweep_lengths_about(tier: Tier) -> &'static str {
    match tier {
        Tier::Quick => "every length 0..=1100, 2^k-3..2^k+3 for k=11..16, 4000/10000/30000/60000/65000, 65496..=65535",
        Tier::Thorough => "every length 0..=9000, every 13th above, 2^k-3..2^k+3 for k=11..16, 65496..=65535",
    }
}
/// One message whose field `kind` has length `l` (clamped so that the message fits 65535).
pub fn len_sweep_message(kind: usize, l: usize, big: bool) -> RefMsg {
    let fl = if big { 0x02 } else { 0 };
    let e_log = || Some(ext(MSTP_LOG, 4, "APP", "CTX"));
    let fill = |n: usize| -> Vec<u8> { (0..n).map(|i| (i * 31 + n) as u8).collect() };
    match kind {
        // verbose string of l bytes (+ NUL): 14 headers + 4 + 2 + l + 1
        0 => {
            let n = l.min(65_535 - 14 - 7);
            msg_with(fl, 1, e_log(), RefPayload::Verbose(vec![mk_arg(RefKind::Str, None, 1, false, RefValue::Str("s".repeat(n)), None)]), None)
        }
        1 => {
            let n = l.min(65_535 - 14 - 6);
            msg_with(fl, 1, e_log(), RefPayload::Verbose(vec![mk_arg(RefKind::Raw, None, 0, false, RefValue::Raw(fill(n)), None)]), None)
        }
        // variable name of l bytes: 14 + 4 + 2 (name len) + 2 (unit len) + l + 1 + 2 + 4
        2 => {
            let n = l.min(65_535 - 14 - 15 - 1);
            let name = "N".repeat(n);
            msg_with(fl, 1, e_log(), RefPayload::Verbose(vec![mk_arg(RefKind::Uint(4), Some((&name, "u")), 0, false, RefValue::U(0x0102_0304, 4), None)]), None)
        }
        3 => {
            let n = l.min(65_535 - 14 - 15 - 1);
            let unit = "U".repeat(n);
            msg_with(fl, 1, e_log(), RefPayload::Verbose(vec![mk_arg(RefKind::Sint(2), Some(("n", &unit)), 0, false, RefValue::I(-2, 2), None)]), None)
        }
        4 => msg_with(fl, 1, None, RefPayload::NonVerbose(0x0102_0304, fill(l.min(65_535 - 8))), None),
        5 => msg_with(fl, 1, Some(ext(MSTP_CONTROL, 1, "APP", "CTX")), RefPayload::Control(0x11, fill(l.min(65_535 - 15))), None),
        6 => msg_with(fl, 1, Some(ext(MSTP_NW_TRACE, 2, "NW", "TR")), RefPayload::NetworkTrace(vec![fill(l.min(65_535 - 14 - 6 - 6)), vec![]]), None),
        // strings of about l bytes made of multi-byte characters (2-byte fill; 3-byte fill behind one
        // ASCII character, so that characters straddle every power-of-two offset)
        8 => {
            let n = l.min(65_535 - 14 - 7) / 2;
            msg_with(fl, 1, e_log(), RefPayload::Verbose(vec![mk_arg(RefKind::Str, None, 1, false, RefValue::Str("é".repeat(n)), None)]), None)
        }
        9 => {
            let n = (l.min(65_535 - 14 - 7 - 4).saturating_sub(1)) / 3; // 4 more bytes: name length + "n\0"
            msg_with(fl, 1, e_log(), RefPayload::Verbose(vec![mk_arg(RefKind::Str, Some(("n", "")), 1, false, RefValue::Str(format!("a{}", "€".repeat(n))), None)]), None)
        }
        // a string of l bytes with variable name followed by another argument (cursor carried on)
        _ => {
            let n = l.min(65_535 - 14 - 7 - 5 - 8);
            msg_with(
                fl,
                1,
                e_log(),
                RefPayload::Verbose(vec![mk_arg(RefKind::Str, Some(("nm", "")), 0, false, RefValue::Str("t".repeat(n)), None), mk_arg(RefKind::Uint(2), None, 0, false, RefValue::U(0x0102, 2), None)]),
                None,
            )
        }
    }
}

pub fn value_sweep_args(tier: Tier) -> Vec<RefArg> {
    let thorough = tier == Tier::Thorough;
    let mut out = vec![];
    for b in 0..=255u8 {
        out.push(mk_arg(RefKind::Bool, None, 0, false, RefValue::Bool(b), None));
        out.push(mk_arg(RefKind::Uint(1), None, 0, false, RefValue::U(b as u128, 1), None));
        out.push(mk_arg(RefKind::Sint(1), None, 0, false, RefValue::I(b as i8 as i128, 1), None));
    }
    let his: Vec<u16> = if thorough { (0..=255).collect() } else { vec![0, 1, 2, 0x10, 0x7F, 0x80, 0xFE, 0xFF] };
    for hi in his {
        for lo in 0..=255u16 {
            let v = (hi << 8) | lo;
            out.push(mk_arg(RefKind::Uint(2), None, 0, false, RefValue::U(v as u128, 2), None));
            out.push(mk_arg(RefKind::Sint(2), None, 0, false, RefValue::I(v as i16 as i128, 2), None));
        }
    }
    for n in [4u8, 8, 16] {
        let bits = 8 * n as u32;
        let mask: u128 = if n == 16 { u128::MAX } else { (1u128 << bits) - 1 };
        let mut pats: Vec<u128> = vec![];
        for b in 0..bits {
            pats.push(1u128 << b);
            pats.push(mask & !(1u128 << b));
        }
        for byte in 0..n as u32 {
            pats.push(0xA5u128 << (8 * byte));
        }
        for p in pats {
            out.push(mk_arg(RefKind::Uint(n), None, 0, false, RefValue::U(p, n), None));
            // reinterpret the same bit pattern as a signed value of that width
            let sv: i128 = if n == 16 { p as i128 } else if p >> (bits - 1) & 1 == 1 { (p as i128) - (1i128 << bits) } else { p as i128 };
            out.push(mk_arg(RefKind::Sint(n), None, 0, false, RefValue::I(sv, n), None));
        }
    }
    // "generic" bit patterns: a fixed list of 1024 (4096 thorough) multiplicative-hash constants per
    // width (no structure a boundary-value alphabet would share), as unsigned and as signed values
    let nconst: u64 = if thorough { 4096 } else { 1024 };
    for n in [4u8, 8, 16] {
        let bits = 8 * n as u32;
        for i in 1..=nconst {
            let lo = i.wrapping_mul(0x9E37_79B9_7F4A_7C15);
            let hi = (i ^ 0x5555).wrapping_mul(0xC2B2_AE3D_27D4_EB4F);
            let mut p: u128 = ((hi as u128) << 64) | lo as u128;
            if n != 16 {
                p &= (1u128 << bits) - 1;
            }
            // every 4th constant gets its top bit forced (upper half of the unsigned range)
            if i % 4 == 0 {
                p |= 1u128 << (bits - 1);
            }
            out.push(mk_arg(RefKind::Uint(n), None, 0, false, RefValue::U(p, n), None));
            let sv: i128 = if n == 16 { p as i128 } else if p >> (bits - 1) & 1 == 1 { (p as i128) - (1i128 << bits) } else { p as i128 };
            out.push(mk_arg(RefKind::Sint(n), None, 0, false, RefValue::I(sv, n), None));
        }
    }
    for i in 1..=nconst {
        let w = i.wrapping_mul(0x9E37_79B9_7F4A_7C15);
        out.push(mk_arg(RefKind::Float(4), None, 0, false, RefValue::F32((w >> 32) as u32), None));
        out.push(mk_arg(RefKind::Float(8), None, 0, false, RefValue::F64(w), None));
    }
    // NaN space: every exponent-255 float with each single mantissa bit (signalling and quiet)
    for b in 0..23u32 {
        for s in [0u32, 1] {
            out.push(mk_arg(RefKind::Float(4), None, 0, false, RefValue::F32((s << 31) | 0x7F80_0000 | (1 << b)), None));
            out.push(mk_arg(RefKind::Float(4), None, 0, false, RefValue::F32((s << 31) | 0x7F80_0000 | (1 << b) | 1), None));
        }
    }
    for b in 0..52u64 {
        for s in [0u64, 1] {
            out.push(mk_arg(RefKind::Float(8), None, 0, false, RefValue::F64((s << 63) | 0x7FF0_0000_0000_0000 | (1 << b)), None));
        }
    }
    // floats: exponent sweep x mantissas x sign
    for e in 0..=255u32 {
        for m in [0u32, 1, 0x0040_0000, 0x007F_FFFF] {
            for s in [0u32, 1] {
                out.push(mk_arg(RefKind::Float(4), None, 0, false, RefValue::F32((s << 31) | (e << 23) | m), None));
            }
        }
    }
    let e64: Vec<u64> = if thorough { (0..=2047).collect() } else { (0..=2047).filter(|e| e % 37 == 0 || *e <= 2 || (1021..=1026).contains(e) || *e >= 2045).collect() };
    for e in e64 {
        for m in [0u64, 1, 0x0008_0000_0000_0000, 0x000F_FFFF_FFFF_FFFF] {
            for s in [0u64, 1] {
                out.push(mk_arg(RefKind::Float(8), None, 0, false, RefValue::F64((s << 63) | (e << 52) | m), None));
            }
        }
    }
    // fixed point: quantization exponent sweep; offset walking bits
    for k in [RefKind::SFix(4), RefKind::UFix(4), RefKind::SFix(8), RefKind::UFix(8)] {
        let n = match k {
            RefKind::SFix(n) | RefKind::UFix(n) => n,
            _ => unreachable!(),
        };
        for e in (0..=255u32).step_by(if thorough { 1 } else { 5 }) {
            for s in [0u32, 1] {
                out.push(mk_arg(k, None, 0, false, default_value(k), Some(((s << 31) | (e << 23) | 0x0012_3456, 0x0102_0304))));
            }
        }
        let ob = if n == 4 { 32 } else { 64 };
        for b in 0..ob {
            let w: i64 = if n == 4 { (1u32 << b) as i32 as i64 } else { (1u64 << b) as i64 };
            out.push(mk_arg(k, Some(("n", "u")), 0, false, default_value(k), Some((0x3F80_0000, w))));
            out.push(mk_arg(k, None, 0, false, default_value(k), Some((0x3F80_0000, !w & if n == 4 { -1i64 } else { -1 }))));
        }
    }
    out
}

pub fn embedded_pattern_positions() -> usize {
    26
}
/// One message with the storage pattern at content position `pos` (see family u.embedded_pattern).
pub fn embedded_pattern_message(pos: usize, big: bool, st: Option<RefStorage>, pat: &[u8], pat_s: &str) -> RefMsg {
    let fl = if big { 0x02 } else { 0 };
    let around = |pre: usize, post: usize| -> Vec<u8> {
        let mut v = vec![0x58u8; pre];
        v.extend_from_slice(pat);
        v.extend(std::iter::repeat(0x59u8).take(post));
        v
    };
    let twice = {
        let mut v = around(1, 2);
        v.extend_from_slice(pat);
        v
    };
    let e_log = || Some(ext(MSTP_LOG, 4, "APP", "CTX"));
    match pos {
        0 => msg_with(fl, 1, None, RefPayload::NonVerbose(7, around(0, 0)), st),
        1 => msg_with(fl, 1, None, RefPayload::NonVerbose(7, around(3, 5)), st),
        2 => msg_with(fl | 0x04, 1, None, RefPayload::NonVerbose(7, around(20, 0)), st),
        3 => msg_with(fl, 1, None, RefPayload::NonVerbose(7, twice.clone()), st),
        4 => msg_with(fl, 1, Some(ext(MSTP_CONTROL, 1, "APP", "CTX")), RefPayload::Control(0x11, around(2, 1)), st),
        5 => msg_with(fl, 1, e_log(), RefPayload::Verbose(vec![mk_arg(RefKind::Raw, None, 0, false, RefValue::Raw(around(0, 0)), None)]), st),
        6 => msg_with(fl, 1, e_log(), RefPayload::Verbose(vec![mk_arg(RefKind::Raw, Some(("r", "")), 0, false, RefValue::Raw(around(30, 7)), None), mk_arg(RefKind::Bool, None, 0, false, RefValue::Bool(1), None)]), st),
        7 => msg_with(fl, 1, e_log(), RefPayload::Verbose(vec![mk_arg(RefKind::Str, None, 1, false, RefValue::Str(pat_s.to_string()), None)]), st),
        8 => msg_with(fl, 1, e_log(), RefPayload::Verbose(vec![mk_arg(RefKind::Str, None, 0, false, RefValue::Str(format!("abc{}xyz{}", pat_s, pat_s)), None), mk_arg(RefKind::Uint(2), None, 0, false, RefValue::U(0x0102, 2), None)]), st),
        9 => msg_with(fl, 1, e_log(), RefPayload::Verbose(vec![mk_arg(RefKind::Uint(4), Some((pat_s, "u")), 0, false, RefValue::U(7, 4), None)]), st),
        10 => msg_with(fl, 1, e_log(), RefPayload::Verbose(vec![mk_arg(RefKind::Sint(2), Some(("n", pat_s)), 0, false, RefValue::I(-2, 2), None)]), st),
        11 => msg_with(fl, 1, Some(ext(MSTP_NW_TRACE, 2, "NW", "TR")), RefPayload::NetworkTrace(vec![around(0, 0), around(9, 0)]), st),
        12 => {
            let mut m = msg_with(fl | 0x04, 1, e_log(), payload_for(true, Some(MSTP_LOG), 0), st);
            m.ecu = Some(pat_s.to_string());
            m
        }
        13 => msg_with(fl, 1, Some(ext(MSTP_LOG, 4, pat_s, "CTX")), payload_for(true, Some(MSTP_LOG), 0), st),
        14 => msg_with(fl, 1, Some(ext(MSTP_LOG, 4, "APP", pat_s)), payload_for(false, Some(MSTP_LOG), 0), st),
        15 => {
            // session id whose big-endian bytes are the pattern
            let mut m = msg_with(fl | 0x08, 1, None, RefPayload::NonVerbose(1, vec![1, 2]), st);
            m.session = Some(0x444C_5401);
            m
        }
        16 => {
            let mut m = msg_with(fl | 0x10, 1, e_log(), payload_for(true, Some(MSTP_LOG), 2), st);
            m.timestamp = Some(0x444C_5401);
            m
        }
        // message id: the pattern in the message byte order
        17 => msg_with(fl, 1, None, RefPayload::NonVerbose(if big { 0x444C_5401 } else { 0x0154_4C44 }, vec![9]), st),
        // storage header fields (little endian): seconds / microseconds / ECU id equal to the pattern
        18 => msg_with(fl, 1, None, RefPayload::NonVerbose(3, vec![]), st.map(|_| storage(0x0154_4C44, 5, "STOR"))),
        19 => msg_with(fl, 1, None, RefPayload::NonVerbose(3, vec![1]), st.map(|_| storage(5, 0x0154_4C44, "STOR"))),
        20 => msg_with(fl, 1, e_log(), payload_for(true, Some(MSTP_LOG), 0), st.map(|_| storage(5, 6, pat_s))),
        // a whole stored message carried as the payload of another one
        21 => {
            let inner = encode(&msg_with(0, 1, None, RefPayload::NonVerbose(0x0102_0304, vec![1, 2, 3]), Some(storage(1, 2, "INNR")))).0;
            msg_with(fl, 1, None, RefPayload::NonVerbose(8, inner), st)
        }
        // ... followed by more payload bytes / preceded by some / inside a raw argument / a control payload
        _ => {
            let inner = encode(&msg_with(0x04, 1, Some(ext(MSTP_LOG, 5, "IN", "NR")), payload_for(true, Some(MSTP_LOG), 0), Some(storage(1, 2, "INNR")))).0;
            let mut data = vec![];
            if pos == 23 {
                data.extend_from_slice(b"pre");
            }
            data.extend_from_slice(&inner);
            data.extend_from_slice(b"trailing bytes");
            match pos {
                22 | 23 => msg_with(fl, 1, Some(ext(MSTP_LOG, 6, "GW", "FWD")), RefPayload::NonVerbose(8, data), st),
                24 => msg_with(fl, 1, Some(ext(MSTP_LOG, 5, "GW", "FWD")), RefPayload::Verbose(vec![mk_arg(RefKind::Raw, None, 0, false, RefValue::Raw(data), None), mk_arg(RefKind::Uint(1), None, 0, false, RefValue::U(7, 1), None)]), st),
                _ => msg_with(fl, 1, Some(ext(MSTP_CONTROL, 1, "GW", "FWD")), RefPayload::Control(0x11, data), st),
            }
        }
    }
}

/// A compact sub-universe for cut-position / mutation seeds: covers every payload kind, every
/// argument kind/width, variable-info shapes, header flag combinations, both byte orders.
pub fn seed_messages(tier: Tier) -> Vec<RefMsg> {
    let mut v = vec![];
    let kinds = all_kinds();
    // every argument kind, with and without variable info, alternating byte order / header shapes
    for (i, k) in kinds.iter().enumerate() {
        for vari in [false, true] {
            let flags = [0x00u8, 0x02, 0x04, 0x1E, 0x0A, 0x14][(i + vari as usize) % 6];
            let a = mk_arg(*k, if vari { Some(("nm", "un")) } else { None }, (i % 2) as u8, vari, default_value(*k), None);
            v.push(msg_with(flags, 1, Some(ext(MSTP_LOG, (i % 6 + 1) as u8, "APP", "CTX")), RefPayload::Verbose(vec![a]), None));
        }
    }
    // multi-argument
    let seq = arg_seq_alphabet(Tier::Quick);
    v.push(msg_with(0x1C, 1, Some(ext(MSTP_LOG, 4, "APP", "CTX")), RefPayload::Verbose(vec![seq[0].clone(), seq[17].clone(), seq[18].clone()]), None));
    v.push(msg_with(0x02, 1, Some(ext(MSTP_APP_TRACE, 2, "AP", "")), RefPayload::Verbose(vec![seq[3].clone(), seq[12].clone()]), None));
    v.push(msg_with(0x00, 1, Some(ext(MSTP_LOG, 1, "A", "C")), RefPayload::Verbose(vec![]), None));
    // other payload kinds x header shapes
    for flags in [0x00u8, 0x02, 0x1C, 0x1E] {
        v.push(msg_with(flags, 1, None, RefPayload::NonVerbose(0x0102_0304, vec![1, 2, 3]), None));
        v.push(msg_with(flags, 1, None, RefPayload::NonVerbose(5, vec![]), None));
        v.push(msg_with(flags, 1, Some(ext(MSTP_LOG, 5, "APP", "CTX")), RefPayload::NonVerbose(0xFFFF_FFFF, vec![0; 5]), None));
        v.push(msg_with(flags, 1, Some(ext(MSTP_CONTROL, 1, "APP", "CTX")), RefPayload::Control(0x11, vec![0, 1]), None));
        v.push(msg_with(flags, 1, Some(ext(MSTP_CONTROL, 2, "APP", "CTX")), RefPayload::Control(2, vec![]), None));
        v.push(msg_with(flags, 1, Some(ext(MSTP_NW_TRACE, 2, "NW", "TR")), RefPayload::NetworkTrace(vec![vec![1, 2, 3], vec![]]), None));
        v.push(msg_with(flags, 1, Some(ext(MSTP_NW_TRACE, 7, "NW", "TR")), RefPayload::NetworkTrace(vec![]), None));
        v.push(msg_with(flags, 1, Some(ext(5, 3, "UN", "KN")), RefPayload::NonVerbose(1, vec![2]), None));
    }
    if tier == Tier::Thorough {
        for (i, a) in arg_seq_alphabet(Tier::Thorough).into_iter().enumerate() {
            v.push(msg_with(if i % 2 == 0 { 0x06 } else { 0x10 }, (i % 8) as u8, Some(ext(MSTP_LOG, 3, "é", "€")), RefPayload::Verbose(vec![a.clone(), a]), None));
        }
    }
    v
}
