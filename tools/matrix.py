#!/usr/bin/env python3
"""Detection matrix: run checks against seeded changes in scratch copies (never in /repo or /verif).

usage: tools/matrix.py [--tier quick|thorough] [--slots N] [--checks own|all|C01,C02..] [--out FILE] <seeded-id|dir> ...
       (no ids: every directory under /verif/seeded)

Each slot owns /tmp/dltmx/slot<k>/{repo,verif}: `repo` is a detached git worktree of /repo's HEAD,
`verif` a copy of /verif (without build output) whose harness links against that worktree.  For
each seeded change the patch is applied to the slot's worktree, the requested checks are run with
the slot's ./check, and the worktree is restored.  Result per (change, check): DETECTED (exit 1 +
VIOLATION line), MISSED (exit 0), BROKEN (anything else).  Slots and their build output are removed
at the end.  Results go to --out (default /verif/seeded/MATRIX.json, merged by id) .
"""
import json, os, shutil, subprocess, sys, threading, time, queue, re

ROOT = os.environ.get("MATRIX_ROOT", "/tmp/dltmx")
ALL = ["C%02d" % i for i in range(1, 20)]


def sh(cmd, cwd=None, env=None, timeout=None):
    p = subprocess.run(cmd, shell=True, cwd=cwd, env=env, stdout=subprocess.PIPE, stderr=subprocess.STDOUT, timeout=timeout)
    return p.returncode, p.stdout.decode("utf-8", "replace")


def setup_slot(k):
    d = f"{ROOT}/slot{k}"
    if os.path.exists(d):
        sh(f"git -C /repo worktree remove --force {d}/repo")
        shutil.rmtree(d, ignore_errors=True)
    os.makedirs(d)
    rc, out = sh(f"git -C /repo worktree add --detach {d}/repo HEAD")
    if rc != 0:
        raise SystemExit("worktree add failed: " + out)
    rev = os.environ.get("MATRIX_VERIF_REV")
    if rev:
        # the harness as committed at REV (to try new changes against the harness they were written against)
        os.makedirs(f"{d}/verif")
        sh(f"git -C /verif archive {rev} -- . ':!seeded' | tar -x -C {d}/verif")
    else:
        sh(f"rsync -a --exclude .git --exclude mc/target --exclude seeded /verif/ {d}/verif/")
    ct = open(f"{d}/verif/mc/Cargo.toml").read().replace('path = "/repo"', f'path = "{d}/repo"')
    open(f"{d}/verif/mc/Cargo.toml", "w").write(ct)
    return d


def teardown_slot(k):
    d = f"{ROOT}/slot{k}"
    sh(f"git -C /repo worktree remove --force {d}/repo")
    shutil.rmtree(d, ignore_errors=True)


def run_one(d, mdir, mid, checks, tier, threads):
    res = {}
    rc, out = sh(f"git apply {mdir}/patch.diff", cwd=f"{d}/repo")
    if rc != 0:
        return {"_error": "patch does not apply: " + out[-300:]}
    env = dict(os.environ, DLTMC_REPO=f"{d}/repo", DLTMC_THREADS=str(threads), CARGO_NET_OFFLINE="true")
    env.pop("DLTMC_VERIF_DIR", None)
    try:
        for c in checks:
            t0 = time.time()
            try:
                rc, out = sh(f"./check {c} --tier {tier}", cwd=f"{d}/verif", env=env, timeout=7200)
            except subprocess.TimeoutExpired:
                rc, out = 99, "timeout"
            nviol = len(re.findall(r"^VIOLATION", out, re.M))
            first = ""
            m = re.search(r"^VIOLATION.*\n(.*)\n(.*)", out, re.M)
            if m:
                first = (m.group(1).strip() + " :: " + m.group(2).strip())[:400]
            verdict = "DETECTED" if (rc == 1 and nviol > 0) else "MISSED" if rc == 0 else "BROKEN"
            res[c] = {"verdict": verdict, "rc": rc, "violation_lines": nviol, "first": first, "wall_s": round(time.time() - t0, 1)}
            if verdict == "BROKEN":
                res[c]["tail"] = out[-600:]
    finally:
        sh("git checkout -- . && git clean -fdq", cwd=f"{d}/repo")
        sh("rm -f replays/*.json", cwd=f"{d}/verif")
    return res


def main():
    args = sys.argv[1:]
    tier, slots, checks_arg, out_file = "quick", 4, "own", "/verif/seeded/MATRIX.json"
    ids = []
    i = 0
    while i < len(args):
        a = args[i]
        if a == "--tier": tier = args[i + 1]; i += 1
        elif a == "--slots": slots = int(args[i + 1]); i += 1
        elif a == "--checks": checks_arg = args[i + 1]; i += 1
        elif a == "--out": out_file = args[i + 1]; i += 1
        else: ids.append(a)
        i += 1
    if not ids:
        ids = sorted(x for x in os.listdir("/verif/seeded") if os.path.isdir(f"/verif/seeded/{x}"))
    jobs = queue.Queue()
    for x in ids:
        mdir = x if os.path.isdir(x) else f"/verif/seeded/{x}"
        mid = os.path.basename(mdir.rstrip("/"))
        meta = {}
        try:
            meta = json.load(open(f"{mdir}/meta.json"))
        except Exception:
            pass
        own = meta.get("property", mid.split("-")[0])
        if checks_arg == "own": checks = [own]
        elif checks_arg == "all": checks = [own] + [c for c in ALL if c != own]
        else: checks = checks_arg.split(",")
        jobs.put((mdir, mid, own, checks))
    slots = min(slots, jobs.qsize())
    threads = max(2, 16 // slots)
    results = {}
    lock = threading.Lock()

    def worker(k):
        d = setup_slot(k)
        # warm build so that the first mutant is not charged for the whole dependency build
        sh("cargo build --release --offline", cwd=f"{d}/verif/mc", env=dict(os.environ, CARGO_NET_OFFLINE="true"))
        while True:
            try:
                mdir, mid, own, checks = jobs.get_nowait()
            except queue.Empty:
                break
            r = run_one(d, mdir, mid, checks, tier, threads)
            with lock:
                results[mid] = {"property": own, "tier": tier, "checks": r}
                own_v = r.get(own, {}).get("verdict", r.get("_error", "?"))
                others = [c for c, v in r.items() if c != own and isinstance(v, dict) and v.get("verdict") == "DETECTED"]
                print(f"{mid}: own check {own} -> {own_v}; also detected by {others}", flush=True)
        teardown_slot(k)

    ts = [threading.Thread(target=worker, args=(k,)) for k in range(slots)]
    for t in ts: t.start()
    for t in ts: t.join()
    shutil.rmtree(ROOT, ignore_errors=True)
    sh("git -C /repo worktree prune")
    merged = {}
    if os.path.exists(out_file):
        try: merged = json.load(open(out_file))
        except Exception: merged = {}
    for mid, r in results.items():
        prev = merged.get(mid, {})
        if prev.get("tier") == r["tier"] or not prev:
            pc = prev.get("checks", {}) if prev.get("tier") == r["tier"] else {}
            pc.update(r["checks"])
            r["checks"] = pc
            merged[mid] = r
        else:
            merged[mid + "@" + r["tier"]] = r
    merged["_head"] = {"repo": sh("git -C /repo rev-parse --short HEAD")[1].strip(), "verif": sh("git -C /verif rev-parse --short HEAD")[1].strip(), "at": time.strftime("%Y-%m-%dT%H:%M:%SZ", time.gmtime())}
    json.dump(merged, open(out_file, "w"), indent=1, sort_keys=True)
    missed = [m for m, r in results.items() if r["checks"].get(r["property"], {}).get("verdict") != "DETECTED"]
    print("own-check misses:", missed)


if __name__ == "__main__":
    main()
