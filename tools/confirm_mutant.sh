#!/bin/bash
# usage: tools/confirm_mutant.sh <dir-with-patch.diff+demo.rs> <id>   (worktree /tmp/mutv is reused)
# Confirms independently: patch applies, both suites green with patch, demo fails with patch and
# passes without.  Writes <dir>/confirm.json.
set -u
D="$1"; ID="$2"; WT="${MUTV_WT:-/tmp/mutv}"
export CARGO_NET_OFFLINE=true
if [ ! -d "$WT" ]; then git -C /repo worktree add --detach "$WT" HEAD >/dev/null 2>&1 || exit 2; fi
cd "$WT" || exit 2
git checkout -q --detach "$(git -C /repo rev-parse HEAD)" 2>/dev/null
git checkout -- . ; rm -f tests/demo_*.rs
res() { echo "$1"; }
if ! git apply --check "$D/patch.diff" 2>/dev/null; then echo "{\"id\":\"$ID\",\"applies\":false}" > "$D/confirm.json"; exit 1; fi
git apply "$D/patch.diff"
touched=$(git diff --name-only | tr '\n' ' ')
s1=$(cargo test --workspace --no-fail-fast --offline 2>&1 | grep -E "^test result" | head -1)
s2=$(cargo test --workspace --all-features --no-fail-fast --offline 2>&1 | grep -E "^test result" | head -1)
cp "$D/demo.rs" tests/demo_x.rs
d_with=$(cargo test --offline --all-features --test demo_x 2>&1 | grep -E "^test result|^error(\[|:)" | head -2 | tr '\n' ' ')
git checkout -- .
d_without=$(cargo test --offline --all-features --test demo_x 2>&1 | grep -E "^test result|^error(\[|:)" | head -2 | tr '\n' ' ')
rm -f tests/demo_x.rs
python3 - "$ID" "$touched" "$s1" "$s2" "$d_with" "$d_without" > "$D/confirm.json" <<'PY'
import sys, json, re
id_, touched, s1, s2, dw, dwo = sys.argv[1:7]
def ok_all(s, n): 
    m = re.search(r"(\d+) passed; (\d+) failed", s); return bool(m) and int(m.group(1)) == n and int(m.group(2)) == 0
def failed(s):
    m = re.search(r"(\d+) passed; (\d+) failed", s); return bool(m) and int(m.group(2)) > 0
def passed(s):
    m = re.search(r"(\d+) passed; (\d+) failed", s); return bool(m) and int(m.group(2)) == 0 and int(m.group(1)) > 0
r = {"id": id_, "applies": True, "files_touched": touched.split(), "only_src": all(f.startswith("src/") for f in touched.split()),
     "suite_default_with_patch": s1, "suite_all_features_with_patch": s2,
     "suite_default_green": ok_all(s1, 54), "suite_all_features_green": ok_all(s2, 63),
     "demo_with_patch": dw, "demo_without_patch": dwo, "demo_fails_with_patch": failed(dw), "demo_passes_without_patch": passed(dwo)}
r["confirmed"] = r["only_src"] and r["suite_default_green"] and r["suite_all_features_green"] and r["demo_fails_with_patch"] and r["demo_passes_without_patch"]
print(json.dumps(r, indent=1))
PY
grep -o '"confirmed": [a-z]*' "$D/confirm.json" | sed "s/^/$ID /"
