#!/usr/bin/env python3
"""Writes into every seeded/<id>/meta.json what was run for it: the independent confirmation
(confirm.json: suites green with the patch, demonstration fails with / passes without) and the
verdicts of the checks (first try and final harness) from seeded/MATRIX*.json.  Idempotent."""
import json, os, glob

S = os.path.join(os.path.dirname(os.path.dirname(os.path.abspath(__file__))), "seeded")


def load(name):
    p = os.path.join(S, name)
    return {k: v for k, v in json.load(open(p)).items() if not k.startswith("_")} if os.path.exists(p) else {}


first = {}
for n in ["MATRIX.json", "MATRIX_r3_first.json", "MATRIX_r4_first.json", "MATRIX_r5_first.json", "MATRIX_r6_first.json", "MATRIX_r7_first.json", "MATRIX_r8_first.json", "MATRIX_r9_first.json", "MATRIX_r10_first.json", "MATRIX_r11_first.json", "MATRIX_r12_first.json", "MATRIX_r13_first.json"]:
    first.update(load(n))
recheck = load("MATRIX_recheck.json")
final = load("MATRIX_final.json")


def own(entry):
    if not entry:
        return None
    r = entry.get("checks", {}).get(entry["property"])
    return r.get("verdict") if isinstance(r, dict) else None


for mp in sorted(glob.glob(os.path.join(S, "*", "meta.json"))):
    d = os.path.dirname(mp)
    m = json.load(open(mp))
    mid = m["id"]
    cp = os.path.join(d, "confirm.json")
    if os.path.exists(cp):
        c = json.load(open(cp))
        m["confirmed_in_scratch_worktree"] = {
            "how": "tools/confirm_mutant.sh: git apply in a scratch worktree of /repo HEAD; cargo test --workspace --offline; cargo test --workspace --all-features --offline; the demonstration as tests/demo_x.rs with and without the patch",
            "suite_default_with_patch": c.get("suite_default_with_patch"),
            "suite_all_features_with_patch": c.get("suite_all_features_with_patch"),
            "demo_with_patch": c.get("demo_with_patch"),
            "demo_without_patch": c.get("demo_without_patch"),
            "confirmed": c.get("confirmed"),
        }
    e = first.get(mid)
    others = sorted(k for k, r in (e or {}).get("checks", {}).items() if k != m["property"] and isinstance(r, dict) and r.get("verdict") == "DETECTED")
    m["checks_run"] = {
        "how": "tools/matrix.py (scratch slots: git worktree of /repo + copy of /verif; quick tier); nothing applied to /repo",
        "own_check_first_try": own(e),
        "other_checks_reporting_it_first_try": others,
        "own_check_final_harness": own(final.get(mid)) or own(recheck.get(mid)) or own(e),
    }
    json.dump(m, open(mp, "w"), indent=1, ensure_ascii=False)
print("annotated", len(glob.glob(os.path.join(S, "*", "meta.json"))))
