#!/bin/bash
# Auxiliary, NOT a registered check and never a deciding step: runs a thinned version of one
# property's families (DLTMC_CASE_CAP evenly spread cases per family) under Miri, so that language-level
# undefined behaviour in dlt-core (out-of-bounds, uninitialised reads, invalid references) on those
# cases is reported.  usage: tools/miri_aux.sh <Cxx> [cases-per-family, default 20]
# Evidence / replays go to a scratch directory, never to /verif.
set -u
PROP="${1:?property}"; CAP="${2:-20}"
SCR=$(mktemp -d /dev/shm/dltmc-miri.XXXXXX)
cp /verif/known_findings.json "$SCR/"
cd /verif/mc || exit 2
DLTMC_CASE_CAP="$CAP" DLTMC_THREADS=2 DLTMC_VERIF_DIR="$SCR" CARGO_TARGET_DIR="${MIRI_TARGET_DIR:-/dev/shm/dltmc-miri-target}" \
  MIRIFLAGS="-Zmiri-disable-isolation -Zmiri-ignore-leaks" cargo +nightly miri run --offline -- "$PROP" --tier quick 2>&1 | tail -n 15
rc=${PIPESTATUS[0]}
rm -rf "$SCR"
exit $rc
