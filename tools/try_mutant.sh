#!/bin/bash
# usage: tools/try_mutant.sh [-R] <patch.diff> <tier> <Cxx> [<Cyy> ...]
# Applies the patch to /repo's working tree (reverse with -R), runs the named checks, prints one
# line per check (DETECTED = exit 1 with a VIOLATION line, MISSED = exit 0, BROKEN = exit 2),
# then restores /repo (git checkout -- .).  Evidence files are restored afterwards too.
set -u
REV=""
if [ "$1" = "-R" ]; then REV="-R"; shift; fi
PATCH="$1"; TIER="$2"; shift 2
cd /repo || exit 2
if [ -n "$(git status --porcelain)" ]; then echo "/repo is not clean"; exit 2; fi
if ! git apply $REV "$PATCH"; then echo "patch does not apply"; exit 2; fi
trap 'git -C /repo checkout -- . ; cd /verif && git checkout -- evidence 2>/dev/null' EXIT
cd /verif
for c in "$@"; do
  out=$(./check "$c" --tier "$TIER" 2>/dev/null)
  rc=$?
  nviol=$(echo "$out" | grep -c '^VIOLATION')
  first=$(echo "$out" | grep -A2 '^VIOLATION' | head -3 | tr '\n' ' ' | cut -c1-420)
  case $rc in
    1) echo "$c DETECTED ($nviol VIOLATION lines) :: $first" ;;
    0) echo "$c MISSED" ;;
    *) echo "$c BROKEN rc=$rc :: $(echo "$out" | tail -3 | tr '\n' ' ' | cut -c1-300)" ;;
  esac
done
