#!/usr/bin/env python3
"""Regenerates /verif/MANIFEST.json from the table below and validates it against the schema.
Edit CHECKS / PENDING here, never MANIFEST.json by hand."""
import json, sys, os
HERE = os.path.dirname(os.path.dirname(os.path.abspath(__file__)))

# id -> (category, technique, level text, level note, design ref)
CHECKS = {
 "C01": ("model_checking",
   "bounded exhaustive enumeration of the message universe x trailing suffixes on the real writer+parser (small-scope input space)",
   "Every message of the universe U (complete products of per-field alphabets: all 256 HTYP bytes, all 256 MSIN bytes with the payload kind each requires, id/u32 alphabets, ~4.5k-40k single-argument variants of all 19 kinds incl. variable info/fixed point/float bit patterns, all argument sequences up to depth 2-3, non-verbose/control/network-trace payloads, 65535-byte boundary messages; both byte orders; with and without storage header) is serialised with Message::as_bytes, a suffix is appended (empty, all 256 single bytes, 'DLT\\x01', a following message, 64 KiB of zeros) and parsed with dlt_message: the result must be an Item that is bit-identical to the original (floats by to_bits) and the remainder must be exactly the suffix (pointer and length). U also contains sweep families: the storage pattern and the serial pattern embedded as content or as the first header bytes, EVERY length 0..=1100 (quick) / 0..=9000 (thorough) of 8 length-carrying fields, EVERY argument count 0..=255 in six shapes, bit-level value sweeps of every numeric kind and header field, and EVERY Unicode scalar value as string content. A suffix-length sweep follows six messages with EVERY number of trailing bytes 0..=140000 (530000).",
   "Trusted: the harness's RefMsg -> Message adapter and bit-exact comparison. Messages outside the alphabets / longer argument sequences are not visited (small-scope hypothesis).",
   "DESIGN.md 4/C01"),
 "C02": ("model_checking",
   "bounded exhaustive differential check of the real writer and parser against an independently written reference codec (reference model in the harness; every explored input is an implementation execution)",
   "Encode side: for every message of U the crate's bytes (and the sub-writers' bytes) equal the bytes of a reference encoder written from the AUTOSAR PRS layout. Decode side: for every byte string of the decode input space (canonical encodings, an enumerated dialect universe, complete d=1 and structural d=2 mutation neighbourhoods of ~80-230 seed encodings, a header-field product over all 256 HTYP x LEN x MSIN x NOAR, all short byte strings over small alphabets, concatenations, junk+message truncations) x 3 storage-header variants, the parser's verdict class, decoded fields and consumed length equal the reference decoder's. The reference is self-checked on every message of U (decode(encode(m)) == m) and on two documented example messages. U also contains sweep families: the storage pattern and the serial pattern embedded as content or as the first header bytes, EVERY length 0..=1100 (quick) / 0..=9000 (thorough) of 8 length-carrying fields, EVERY argument count 0..=255 in six shapes, bit-level value sweeps of every numeric kind and header field, and EVERY Unicode scalar value as string content. Decode side additionally: all 2^24 (HTYP, MCNT, LEN-high) header prefixes in front of a 64 KiB body, long junk around every power of two / multiple of 10 KiB / 64 KiB, embedded-pattern messages followed by trailing data, and history pairs: all 1375^2 ordered pairs (a, b) of inputs, b parsed twice after a, both verdicts compared with the reference (history-dependent state).",
   "Trusted: refmodel.rs (reference codec) and its documented verdict order; error variants/texts are not compared, only message / incomplete / reject.",
   "DESIGN.md 3.2, 4/C02"),
 "C03": ("model_checking",
   "bounded exhaustive enumeration of byte strings through every slice entry point of the real code with overflow checks and debug assertions compiled in (panic = violation)",
   "The whole decode input space x 3 storage variants x 5 filter configurations goes through dlt_message, dlt_consume_msg, skip_storage_header, forward_to_next_storage_header, dlt_zero_terminated_string (7 sizes); every returned message is re-serialised and measured and each argument must pass valid(); plus inputs > 64 KiB (maximal messages, 0xFFFF length prefixes, 128 KiB junk) with cuts and header mutations, a construct_arguments product (type lists x all short data strings x byte order), and a second pass with a Trace-level sink logger so log-statement arguments are evaluated. The decode input space includes the sweep families of U (every length, every count, every Unicode scalar, embedded patterns), the 2^24 header-prefix sweep over a full 64 KiB body, long junk and history-free repeats.",
   "Trusted: catch_unwind + panic hook; overflow-checks/debug-assertions profile. Aborts (allocation failure) would surface as exit 2, not as a verdict.",
   "DESIGN.md 4/C03"),
 "C04": ("model_checking",
   "bounded exhaustive enumeration of byte strings x filter configurations on the real parser/skipper against boundaries computed from the input bytes alone",
   "For every input of the decode input space x 3 storage variants, under 5 filter configurations (none, keep-all, drop-all, level+ECU, context ids) and the message skipper: whenever a call returns Ok, the remainder must be the input's tail starting at (first pattern offset + 16 +) LEN, FilteredOut(n) must carry LEN - headers(HTYP), dlt_consume_msg must report 16+LEN, all configurations must agree, and parse loops over concatenated buffers must visit exactly the boundaries the length fields define. The decode input space includes the sweep families of U, the 2^24 header-prefix sweep over a full 64 KiB body (every declared length backed by data), long junk, and messages carrying the storage pattern as content followed by trailing data.",
   "Trusted: the 10-line expected_span oracle (pattern search + big-endian LEN). ParsedMessage::Invalid is counted, not judged.",
   "DESIGN.md 4/C04"),
 "C05": ("model_checking",
   "bounded exhaustive enumeration: every message of the universe x EVERY cut position through the real parser and skipper",
   "Every message of U (as is and with a storage header forced) is cut at every position 0..len-1: dlt_message must answer IncompleteParse, any size hint must be >= 1 and <= the bytes actually missing; dlt_consume_msg likewise for every non-empty prefix and (no message) for the empty input. U also contains sweep families: the storage pattern and the serial pattern embedded as content or as the first header bytes, EVERY length 0..=1100 (quick) / 0..=9000 (thorough) of 8 length-carrying fields, EVERY argument count 0..=255 in six shapes, bit-level value sweeps of every numeric kind and header field, and EVERY Unicode scalar value as string content. The 21 KiB magic-prefix messages are cut at every position as well.",
   "Trusted: reference encoder used to produce the bytes (checked against the crate's writer by C02). 64 KiB boundary messages: all cuts within 600 bytes of either end, every 97th in between.",
   "DESIGN.md 4/C05"),
 "C06": ("model_checking",
   "bounded exhaustive enumeration of all strings over the pattern alphabet (search) and of junk x message x suffix products (parse) on the real code against a naive reference search",
   "Search: all strings of length <= 8 (quick) / 10 (thorough) over {D,L,T,01,00,X} plus 64-128 KiB buffers with the pattern at boundary offsets: forward_to_next_storage_header must equal a naive first-occurrence scan (offset, remainder pointer). Parse: every pattern-free junk string of length <= 5/6 over that alphabet (every partial-pattern tail) and long junk x storage-header messages x suffixes must parse to the same message and remainder as the message alone; junk/message streams are recovered completely and in order. Additionally the pattern at EVERY offset 0..=70100 (263000) behind three junk fills (search and parse), junk of every length 6..=72 (320) plain and ending in each proper pattern prefix, messages that carry the pattern as content, and every junk/message case under four filter configurations.",
   "Trusted: the naive scan; seed messages parse alone (asserted).",
   "DESIGN.md 4/C06"),
 "C07": ("model_checking",
   "stateless exploration of the real DltMessageReader under a controlled environment: DFS over choice sequences of read() results (bytes delivered, Interrupted) with deviation bounding, plus ALL compositions of short streams",
   "The reader runs over a scripted Read whose every answer is a choice point. Streams: all sequences of 1..2/3 messages over an 8-message alphabet (incl. a 298-byte one and a complete-but-unparsable 4-byte one), every truncation, hostile length fields (LEN 0..5,13..15,65535 x HTYP classes), all short strings over a 7-symbol alphabet, a 65535-byte message. Schedules: every choice sequence with <= 2 (quick) / 3 (thorough) deviations, every uniform chunk size with a single Interrupted at every position, ALL 2^(n-1) compositions for n <= 18/22 bytes (with single Interrupted placements for n <= 12). Oracle: the harness's own cutter + dlt_message per piece; no panic. Bulk families with closed-formula schedules: a message of EVERY declared length 4..=9300 + windows above (thorough: all 4..=65535); streams longer than twice the buffer with 40 (128) phases of the buffer boundary x 7 (14) message sizes x 4 schedules x 4 filters; the default 10 MiB constructor on 10.3 MiB streams x 12 (48) phases; 1-byte reads with Interrupted before every read on messages up to 65535 bytes.",
   "Trusted: the scripted source + explorer (replay divergence is a machinery error); with_capacity(65551,65551) for bulk runs, DltMessageReader::new on a d<=1 subset. For streams > 64 bytes the short-read size menu is a boundary set.",
   "DESIGN.md 3.3, 4/C07"),
 "C08": ("model_checking",
   "stateless exploration of the real DltStreamReader under a controlled environment: DFS over choice sequences of poll_read results (Ready(k), Pending) with deviation bounding, plus all compositions of short streams; differential against the blocking reader",
   "Same streams as C07; every poll_read answer of a scripted AsyncRead is a choice point ({Ready(k) for the menu of k, Pending}); the future is polled by a hand-rolled loop (no-op waker, poll budget). Every choice sequence with <= 2/3 deviations, every uniform chunk size alone / with Pending before every read / with one Pending at every position, ALL compositions for n <= 14/18 bytes. The message sequence and terminal class must equal the blocking reader's on the same bytes and the C07 cutter; no panic, no exhausted poll budget. The C07 bulk families run on the async reader with Pending in place of Interrupted (every declared length, long streams x buffer-boundary phases x filters, default 10 MiB capacity, a Pending before every 1-byte read).",
   "Trusted: scripted AsyncRead + poll loop. Wake-up registration is not checked (the harness re-polls after every Pending).",
   "DESIGN.md 3.3, 4/C08"),
 "C09": ("model_checking",
   "bounded exhaustive enumeration of filter configurations x message shapes on the real parser against the statement transcribed as a predicate",
   "Three complete products: (min_log_level None + all 256 numbers x all message types incl. every log-level nibble x id hit/miss x ECU presence x both conversions), (app/context/ECU id sets in {absent, empty, {hit}, {miss}, {hit,miss}, duplicates} x counts {-1,0,|set|-1,|set|,|set|+1,i64::MAX} x ids x ECU x extended-header presence), and a reduced full product. Dropped exactly when the predicate says so, FilteredOut carries the payload length, kept messages are bit-identical to the unfiltered parse, same remainder; repeated through read::read_message. Plus near-miss ids (all ordered pairs over 20 similar ids: blank/NUL/case/prefix/suffix variants, in the application, context and ECU position) and the filter through both readers on long fragmented streams against parsing each piece with the same filter.",
   "Trusted: the transcribed predicate expect_dropped().",
   "DESIGN.md 4/C09"),
 "C10": ("model_checking",
   "bounded exhaustive enumeration of message streams x all splits, with explicit-state breadth-first search over all merge histories of the real StatisticInfo values (invariant checked in every state)",
   "All streams of <= 2 messages over a 291-symbol header alphabet, <= 3/4 over a 12-symbol collision-forcing alphabet, <= 5/6 over 4 symbols, with and without storage headers. Per stream: a recording collector must see each message once, in order, with the reference header values; StatisticInfoCollector must equal an independent tally; for every composition into contiguous parts a BFS explores every merge history (p_i.merge(p_j) for all ordered pairs, merging with/into new()); states keep the real vectors (order included) and are deduplicated by exact representation; in every state the canonical sum of the parts must equal the whole stream's statistics and no id may be listed twice. Plus long streams (255..66000 / 140000 messages, four shapes incl. 300 ECU / 400 application / 500 context ids) merged from 2..257 parts by left fold, right fold and balanced tree, and directly constructed statistics with counters up to 2^32+5 and usize::MAX/2.",
   "Trusted: the independent tally and canonical-sum invariant. More than 5 parts: left and right folds only.",
   "DESIGN.md 4/C10"),
 "C11": ("model_checking",
   "bounded exhaustive enumeration of abstract FIBEX models x layouts x file partitions, loaded by the real code from generated files, against an independently assembled expected model",
   "Complete products per dimension group: all ordered pairs over a 35-entry signal-reference vocabulary; PDUs with 0..3 signal instances in all permutations x DESC variants x all 120 child orders x instance-internal order x ref style x noise; FRAMEs likewise x all 17 manufacturer-extension shapes; all subsets x orders of manufacturer-extension fields; all ordered pairs and triples of 8 PDU variants x 8 FRAME variants (duplicate ids, dangling refs); all 3^8 assignments of a model's elements to three files x document order; all 24 section orders. gather_fibex_data's result must equal the expectation as maps; extract_metadata is checked per frame id without and with 4 extended headers. Plus file names independent of listing order (all 6 assignments), all ordered triples of distinct sequence numbers of different digit counts (0..2^32-1), and 4..1000 (20000) instances in ascending / descending / stride order.",
   "Trusted: fibexgen.rs (renderer + expected_model). Grammar = that of the repository's sample files; no sequence-number ties, no duplicate signal/coding ids, no empty SHORT-NAME.",
   "DESIGN.md 4/C11"),
 "C12": ("fault_enumeration",
   "exhaustive fault enumeration on the real loader: every truncation offset, every structural deletion, byte corruption, bad paths; each load in a watched worker process",
   "For the repository's two sample FIBEX files and 10-16 generated documents covering every element kind and layout: every truncation offset, deletion of every element subtree / end tag / attribute, every byte replaced by each of 8 markup-relevant values plus low-bit and case-bit flips (documents <= 4 KiB; all in thorough), two-file loads with either file truncated at every offset, and 8 bad-path cases. Each load runs in a worker child process under a 10 s deadline (healthy loads take < 30 ms), a case missing it is re-run alone with 20 s before it is called a hang; panics are reported from the worker. Plus value-substitution faults (every attribute value replaced by every other distinct attribute value of the document, by '' and by an unknown id: reference retargeting, cycles, duplicate ids; every element text replaced by hostile constants), documents with multi-byte characters with and without a UTF-8 BOM, and N in {1..200000 (1000000)} copies of 11 snippets after 11 structural anchors (deep nesting / long runs; a stack overflow of the worker is a violation).",
   "Trusted: wall-clock deadline with a four-orders-of-magnitude margin; the scanner that finds elements/attributes for deletion.",
   "DESIGN.md 4/C12"),
 "C13": ("model_checking",
   "bounded exhaustive enumeration of signal-type lists x value alphabets x byte orders x every truncation on the real construct_arguments against a reference decode of packed fields",
   "All field lists of length <= 2 over a ~75-symbol field alphabet (15 kinds x values incl. empty / NUL-containing / invalid-UTF-8 strings, empty raw data) and length 3 over a reduced alphabet, both byte orders; for each the exact payload, EVERY truncation and 1/3 trailing bytes: exact-or-longer payloads must give one argument per type, in order, same type info, bit-exact value, no name/unit/fixed point; every strict prefix and every invalid-UTF-8 string must give an error; never a panic. Maximal (65535) length prefixes; fixed-point kinds for the no-panic clause. Plus homogeneous runs of each supported kind and cycling shapes for N up to 65536 (70000) fields (payloads beyond 65535 bytes), string/raw fields of every length of the sweep between two fixed fields, and the bit-level value sweep at an even and an odd offset.",
   "Trusted: the harness's field encoder.",
   "DESIGN.md 4/C13"),
 "C14": ("model_checking",
   "exhaustive enumeration of complete finite code domains on the real conversion functions against reference tables of the bit layout",
   "All 256 HTYP bytes (through a real message: version, flags, optional fields, re-encoding), all 256 MSIN bytes (MessageType::try_from / u8::from and through an extended header), and type-info words: quick = all 2^18 low-bit patterns x 32 reserved-bit patterns (8.4 M words), thorough = ALL 2^32 words (~18 s): accepted iff exactly one supported kind bit among bits 4..10 and a supported TYLE; decoded description equals the reference; re-encoding differs only in unused bits, decodes to the same description, BE/LE encodings are byte reversals. Plus history: ALL 2^26 ordered pairs over the patterns of bits 0..12 through TypeInfo::try_from (y judged twice after x) and all 4096^2 pairs of one-argument messages through the parser against the reference decoder.",
   "Trusted: refmodel::decode_type_info / message_type_of reference tables.",
   "DESIGN.md 4/C14"),
 "C15": ("model_checking",
   "bounded exhaustive enumeration of arguments and message configurations on the real length functions and constructor",
   "Every argument of A_full: len() == both serialisation lengths == reference layout length. Message::new from the configuration of every message of U: the built message must equal the reference message field for field (payload_length, verbose, NOAR, extended-header flag), byte_len() == serialisation length, and it must parse back bit-identically; non-representable configurations (payload kind x mismatching/absent extended-header info): length clauses only. add_storage_header: seeds x ECU ids x timestamps incl. None (clock: structure only). valid(): all kinds x all Value variants. U includes the sweep families (every length, every count 0..=255, every Unicode scalar); add_storage_header is also applied to messages that already carry a storage header (three variants).",
   "Trusted: reference encoder for expected lengths.",
   "DESIGN.md 4/C15"),
 "C16": ("model_checking",
   "bounded exhaustive enumeration of byte strings: parse, re-serialise, re-parse on the real code (differential against itself)",
   "Every input of the decode input space x 3 storage variants on which dlt_message returns a message: if the re-serialisation has the length the message's own header declares (premise; counted per family), it must parse back with nothing left over to a bit-identical message whose serialisation is byte-identical. The decode input space includes the sweep families of U (every length, every count incl. homogeneous runs with differing type-info bits, bit-level values incl. every float exponent, every Unicode scalar).",
   "Trusted: same_message (bit-exact structural comparison).",
   "DESIGN.md 4/C16"),
 "C17": ("model_checking",
   "exhaustive enumeration of contiguous input ranges (every input of 0..2^32 and beyond) and of all sub-second residues x boundary quotients on the real code",
   "Every one of the 1000 (ms) and 10^6 (us) sub-second residues is combined with every whole-second quotient of a boundary set (0..4, 2^k-1/2^k/2^k+1, powers of ten +-1, 2^32-1) and DltTimeStamp::from_ms / from_us is run on each input; seconds*10^6+microseconds must equal the input in microseconds, microseconds < 10^6, no panic (overflow checks on). Complete over the part of the input the arithmetic can get wrong (the remainder), boundary-complete over the quotient. Plus contiguous ranges: EVERY input 0..2^30 (ms) and 0..2^32+2^22 (us) [thorough 2^35 / 2^36], the last 2^24 (2^28) inputs of the legal domain, 48 inputs around every whole second up to 70000 (4.3 M) s, 8192 inputs around every power of two.",
   "Trusted: the harness oracle (u128 arithmetic). Quotients outside the boundary set are not visited; div and rem do not interact.",
   "DESIGN.md 4/C17"),
 "C18": ("model_checking",
   "exhaustive enumeration of the product kind x value x fixed-point data on the real code",
   "The complete product of all 19 argument kinds x every Value variant (integer alphabets incl. MIN/MAX/2^53+1 per width) x fixed-point data {absent, quantization alphabet incl. NaN/inf/negative/subnormal x I32/I64 offset alphabet incl. MIN/MAX/negative} is fed to Argument::to_real_value: no panic (overflow checks on), Some only for (fixed-point kind, data, integer value), and the exact sum wherever the statement's range condition holds (computed independently in i128). Plus a dense family: 4 fixed-point kinds x 1570 values (all 8-bit values, 16-bit every 251st, walking bits of 32/64-bit, mid-range constants) x 2598 quantizations (every f32 exponent x 5 mantissas x sign, decimal and 2^k constants) x 16 (208) offsets; thorough: ALL 2^32 quantization bit patterns for four (kind, value, offset) combinations.",
   "Trusted: the oracle's f64 product mirrors the statement's formula; 128-bit values are judged for no-panic and the 'Some only if' clause only.",
   "DESIGN.md 4/C18"),
 "C19": ("model_checking",
   "bounded exhaustive enumeration of all short byte strings over a cut-prone alphabet x all sizes on the real code against an independent field rule",
   "All strings of length <= 6/7 over {00,'a',C3,A9,E2,82,AC,FF} x all sizes 0..=8/9: with enough bytes exactly `size` bytes are consumed and the text is the longest valid-UTF-8 prefix of the bytes before the first NUL (computed without valid_up_to); with fewer bytes: incomplete with hint <= shortfall. Sizes 255..65535 against inputs of size-1/size/size+1 bytes with NUL/invalid bytes at boundary positions; all 4096 four-byte strings in each id position of a message. Plus every size 0..=300 (1100) x special byte at every position x 3 fills x 4 input lengths, and EVERY Unicode scalar value in 7 contexts (intact, before a lone lead byte, before a NUL, cut by the size limit, incomplete, before U+FFFD + invalid byte, before padding).",
   "Trusted: refmodel::clean_field.",
   "DESIGN.md 4/C19"),
}

PENDING = {}  # id -> reason (properties not claimed)

def main():
    props = [json.loads(l) for l in open(os.path.join(HERE, "properties.jsonl"))]
    ids = [p["id"] for p in props]
    checks = []
    for pid in ids:
        if pid not in CHECKS:
            continue
        cat, tech, text, note, ref = CHECKS[pid]
        checks.append({
            "property_id": pid,
            "quick_cmd": f"./check {pid} --tier quick",
            "thorough_cmd": f"./check {pid} --tier thorough",
            "evidence_file": f"/verif/evidence/{pid}.json",
            "replay_cmd_template": f"./check {pid} --replay {{path}}",
            "engine": "dltmc",
            "level_claimed": {"category": cat, "text": text, "design_ref": ref},
            "level_note": note,
            "technique": tech,
        })
    na = []
    for pid in ids:
        if pid not in CHECKS:
            na.append({"property_id": pid, "reason": PENDING.get(pid, "check not built yet in this round (planned: see DESIGN.md section 4); not a statement that the technique cannot apply")})
    m = {
        "version": 1,
        "setup_cmd": "cd /verif/mc && CARGO_NET_OFFLINE=true cargo build --release --offline",
        "hooks": {
            "guard": "dlt_core_verif",
            "enable": "no hooks are needed: every anchor is reachable through the crate's pub API; the guard name (--cfg dlt_core_verif) is reserved and unused, /repo carries no instrumentation commits",
            "baseline_off_cmd": "cd /repo && cargo test --workspace --no-fail-fast --offline",
            "source_commits": [],
            "add_only": True,
        },
        "engines": [{
            "name": "dltmc",
            "path": "/verif/mc",
            "serves_properties": [c["property_id"] for c in checks],
            "kind_free_text": "Rust harness linked against /repo as a path dependency (rebuilt on every check, overflow checks and debug assertions on). Stateless bounded-exhaustive exploration of the real code: index-addressable input spaces, deviation-bounded neighbourhoods, choice-sequence DFS over environment answers, explicit-state BFS over merge histories; reference models written in the harness.",
        }],
        "checks": checks,
        "not_applicable": na,
        "notes": "Genuine defects found on the pinned tree were repaired by seven 'fix:' commits in /repo (see known_findings.json, DESIGN.md section 8). Exit codes: 0 held, 1 VIOLATION, 2 machinery failure (never a verdict).",
    }
    out = os.path.join(HERE, "MANIFEST.json")
    json.dump(m, open(out, "w"), indent=1)
    try:
        import jsonschema
        jsonschema.validate(m, json.load(open("/root/.vp/MANIFEST.schema.json")))
        print("MANIFEST.json written and valid;", len(checks), "checks,", len(na), "not claimed")
    except ImportError:
        print("MANIFEST.json written (jsonschema not importable here; validate with python3-vt)")

if __name__ == "__main__":
    main()
