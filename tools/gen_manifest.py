#!/usr/bin/env python3
"""Regenerates /verif/MANIFEST.json from the table below and validates it against the schema.
Edit CHECKS / PENDING here, never MANIFEST.json by hand."""
import json, sys, os
HERE = os.path.dirname(os.path.dirname(os.path.abspath(__file__)))

# id -> (category, technique, level text, level note, design ref)
CHECKS = {
 "C17": ("model_checking",
   "exhaustive enumeration of a finite input space on the real code (all sub-second residues x boundary quotients)",
   "Every one of the 1000 (ms) and 10^6 (us) sub-second residues is combined with every whole-second quotient of a boundary set (0..4, 2^k-1/2^k/2^k+1, powers of ten +-1, 2^32-1) and DltTimeStamp::from_ms / from_us is run on each input; seconds*10^6+microseconds must equal the input in microseconds, microseconds < 10^6, no panic (overflow checks on). Complete over the part of the input the arithmetic can get wrong (the remainder), boundary-complete over the quotient.",
   "Trusted: the harness oracle (u128 arithmetic). Quotients outside the boundary set are not visited; div and rem do not interact.",
   "DESIGN.md 4/C17"),
 "C18": ("model_checking",
   "exhaustive enumeration of the product kind x value x fixed-point data on the real code",
   "The complete product of all 19 argument kinds x every Value variant (integer alphabets incl. MIN/MAX/2^53+1 per width) x fixed-point data {absent, quantization alphabet incl. NaN/inf/negative/subnormal x I32/I64 offset alphabet incl. MIN/MAX/negative} is fed to Argument::to_real_value: no panic (overflow checks on), Some only for (fixed-point kind, data, integer value), and the exact sum wherever the statement's range condition holds (computed independently in i128).",
   "Trusted: the oracle's f64 product mirrors the statement's formula; 128-bit values are judged for no-panic and the 'Some only if' clause only.",
   "DESIGN.md 4/C18"),
}

PENDING = {}  # id -> reason (properties not claimed)

def main():
    props = [json.loads(l) for l in open(os.path.join(HERE, "properties.jsonl"))]
    ids = [p["id"] for p in props]
    checks = []
    for pid in ids:
        if pid not in CHECKS:
            continue
        cat, tech, text, note, ref = CHECKS[pid]
        checks.append({
            "property_id": pid,
            "quick_cmd": f"./check {pid} --tier quick",
            "thorough_cmd": f"./check {pid} --tier thorough",
            "evidence_file": f"/verif/evidence/{pid}.json",
            "replay_cmd_template": f"./check {pid} --replay {{path}}",
            "engine": "dltmc",
            "level_claimed": {"category": cat, "text": text, "design_ref": ref},
            "level_note": note,
            "technique": tech,
        })
    na = []
    for pid in ids:
        if pid not in CHECKS:
            na.append({"property_id": pid, "reason": PENDING.get(pid, "check not built yet in this round (planned: see DESIGN.md section 4); not a statement that the technique cannot apply")})
    m = {
        "version": 1,
        "setup_cmd": "cd /verif/mc && CARGO_NET_OFFLINE=true cargo build --release --offline",
        "hooks": {
            "guard": "dlt_core_verif",
            "enable": "no hooks are needed: every anchor is reachable through the crate's pub API; the guard name (--cfg dlt_core_verif) is reserved and unused, /repo carries no instrumentation commits",
            "baseline_off_cmd": "cd /repo && cargo test --workspace --no-fail-fast --offline",
            "source_commits": [],
            "add_only": True,
        },
        "engines": [{
            "name": "dltmc",
            "path": "/verif/mc",
            "serves_properties": [c["property_id"] for c in checks],
            "kind_free_text": "Rust harness linked against /repo as a path dependency (rebuilt on every check, overflow checks and debug assertions on). Stateless bounded-exhaustive exploration of the real code: index-addressable input spaces, deviation-bounded neighbourhoods, choice-sequence DFS over environment answers, explicit-state BFS over merge histories; reference models written in the harness.",
        }],
        "checks": checks,
        "not_applicable": na,
        "notes": "Genuine defects found on the pinned tree were repaired by seven 'fix:' commits in /repo (see known_findings.json, DESIGN.md section 8). Exit codes: 0 held, 1 VIOLATION, 2 machinery failure (never a verdict).",
    }
    out = os.path.join(HERE, "MANIFEST.json")
    json.dump(m, open(out, "w"), indent=1)
    try:
        import jsonschema
        jsonschema.validate(m, json.load(open("/root/.vp/MANIFEST.schema.json")))
        print("MANIFEST.json written and valid;", len(checks), "checks,", len(na), "not claimed")
    except ImportError:
        print("MANIFEST.json written (jsonschema not importable here; validate with python3-vt)")

if __name__ == "__main__":
    main()
