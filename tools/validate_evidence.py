#!/usr/bin/env python3
import json, sys, glob, jsonschema
schema = json.load(open("/root/.vp/EVIDENCE.schema.json"))
ok = True
for f in sorted(glob.glob("/verif/evidence/*.json")):
    try:
        jsonschema.validate(json.load(open(f)), schema)
        e = json.load(open(f))
        c = e["coverage"]
        print(f"{f}: valid tier={e['tier']} states={c.get('states')} transitions={c.get('transitions')} traces={c.get('traces_validated_against_impl')} evals={c.get('evaluations')} nontrivial={c.get('distinct_nontrivial')} wall={e['wall_s']}")
    except Exception as ex:
        ok = False
        print(f"{f}: INVALID {str(ex)[:300]}")
sys.exit(0 if ok else 1)
